#!/bin/bash
# Offline setup: everything needed is already in /venv; verify, and fall back to the wheelhouse.
set -e
cd "$(dirname "$0")"
PY=/venv/bin/python
$PY -c "import hypothesis, jsonschema, yaml" 2>/dev/null || /venv/bin/pip install --no-index --find-links /opt/veriftools/wheels hypothesis jsonschema
$PY -c "import sys; sys.path.insert(0, '/repo'); import glotaran, numba, scipy; print('glotaran', glotaran.__file__)"
mkdir -p evidence replays
chmod +x check
echo setup ok
