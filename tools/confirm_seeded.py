#!/usr/bin/env python3
"""Confirm sub-agent seeded changes in a scratch git worktree and file them under /verif/seeded/<id>/.

usage: confirm_seeded.py <src_dir> [<src_dir> ...]   (each holding patch.diff, demo.py, meta.json)
For each: worktree of /repo HEAD under /tmp, `git apply`, demo must FAIL, full pinned suite must pass,
revert, demo must PASS.  Only then copy to /verif/seeded/<id>/ with what was run recorded in meta.json.
"""
import json, os, shutil, subprocess, sys, time

VERIF = os.path.dirname(os.path.dirname(os.path.abspath(__file__)))
PY = "/venv/bin/python"


def sh(cmd, cwd=None, env=None, timeout=3600):
    p = subprocess.run(cmd, cwd=cwd, env=env, capture_output=True, text=True, timeout=timeout)
    return p.returncode, (p.stdout + p.stderr)


def main(srcs):
    for src in srcs:
        sid = os.path.basename(src.rstrip("/"))
        wt = f"/tmp/wt_confirm_{sid}"
        sh(["git", "-C", "/repo", "worktree", "remove", "--force", wt])
        rc, out = sh(["git", "-C", "/repo", "worktree", "add", "--detach", wt, "HEAD"])
        if rc:
            print(sid, "worktree failed", out); continue
        try:
            env = dict(os.environ, PYTHONPATH=wt, PYTHONDONTWRITEBYTECODE="1", OMP_WAIT_POLICY="passive")
            patch = os.path.join(src, "patch.diff")
            rc, out = sh(["git", "-C", wt, "apply", "--check", patch])
            if rc:
                print(f"{sid}: patch does not apply to HEAD: {out.strip()[:300]}"); continue
            sh(["git", "-C", wt, "apply", patch])
            head = sh(["git", "-C", "/repo", "rev-parse", "--short", "HEAD"])[1].strip()
            rc_demo_with, out_with = sh([PY, os.path.join(src, "demo.py")], cwd=wt, env=env, timeout=900)
            t = time.time()
            rc_tests, out_tests = sh([PY, "-m", "pytest", "-q", "-p", "no:cacheprovider", "--timeout=900", "-n", "6",
                                      "--deselect", "glotaran/cli/test/test_cli.py::test_cli_deprecation"], cwd=wt, env=env)
            tests_line = next((l for l in reversed(out_tests.strip().splitlines()) if " passed" in l or " failed" in l), "")
            sh(["git", "-C", wt, "checkout", "--", "."])
            rc_demo_without, out_without = sh([PY, os.path.join(src, "demo.py")], cwd=wt, env=env, timeout=900)
            ok = rc_demo_with != 0 and rc_tests == 0 and rc_demo_without == 0
            print(f"{sid}: demo_with rc={rc_demo_with} tests rc={rc_tests} [{tests_line}] demo_without rc={rc_demo_without} -> {'CONFIRMED' if ok else 'REJECTED'}", flush=True)
            if not ok:
                print(out_with[-400:], out_without[-400:]); continue
            dst = os.path.join(VERIF, "seeded", sid)
            os.makedirs(dst, exist_ok=True)
            for f in os.listdir(src):
                if os.path.isfile(os.path.join(src, f)):
                    shutil.copy(os.path.join(src, f), dst)
            meta = json.load(open(os.path.join(dst, "meta.json")))
            meta["confirmed"] = {
                "repo_head": head,
                "worktree": wt,
                "demo_with_change": f"exit {rc_demo_with}: " + out_with.strip().splitlines()[-1][:300] if out_with.strip() else "",
                "demo_without_change": f"exit {rc_demo_without}: " + out_without.strip().splitlines()[-1][:300] if out_without.strip() else "",
                "pinned_suite_with_change": tests_line,
                "suite_wall_s": round(time.time() - t),
            }
            json.dump(meta, open(os.path.join(dst, "meta.json"), "w"), indent=1)
        finally:
            sh(["git", "-C", "/repo", "worktree", "remove", "--force", wt])


if __name__ == "__main__":
    main(sys.argv[1:])
