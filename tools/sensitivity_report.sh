#!/bin/bash
# Runs the quick check of the right property against every hand-written mutant and every seeded change
# (each on a scratch copy of /repo) and writes the outcome to sensitivity_report.txt.
cd "$(dirname "$0")/.."
{
  echo "# sensitivity report $(date -u +%FT%TZ) repo=$(git -C /repo rev-parse --short HEAD) verif=$(git rev-parse --short HEAD)"
  echo "## seeded (sub-agent) changes"
  python3 tools/mutants.py seeded 2>&1 | cut -c1-200
  echo "## hand-written mutants"
  python3 tools/mutants.py detect 2>&1 | cut -c1-200
} > sensitivity_report.txt
grep -c DETECTED sensitivity_report.txt; grep "MISSED\|HARNESS" sensitivity_report.txt
