#!/bin/bash
# Large-sample determinism self-test of the harness: every run of a quick batch is executed twice in different
# fresh interpreters (16 workers / PYTHONHASHSEED=0 versus 5 workers / PYTHONHASHSEED=12345); digests must agree.
cd "$(dirname "$0")/.."
rc=0
for id in ${@:-C10 C12 C15 C18 C19}; do /venv/bin/python sim/runner.py selftest $id || rc=2; done
exit $rc
