#!/usr/bin/env python3
"""Sensitivity self-test driver.

  mutants.py patches              regenerate mutants/*.patch from catalog.py against /repo
  mutants.py tests  [ids...]      run the pinned test-suite on each mutant (must pass)
  mutants.py detect [ids...]      run the quick check of the mutant's property on a scratch copy (must exit 1)
  mutants.py seeded [ids...]      same for /verif/seeded/<id>/patch.diff
"""
import json, os, shutil, subprocess, sys, time

HERE = os.path.dirname(os.path.abspath(__file__))
VERIF = os.path.dirname(HERE)
sys.path.insert(0, os.path.join(VERIF, "mutants"))
REPO = "/repo"
SCRATCH = os.environ.get("VERIF_SCRATCH", "/dev/shm")


def catalog():
    import catalog as c
    return c.M


def make_copy(tag):
    dst = os.path.join(SCRATCH, f"verif_mut_{tag}_{os.getpid()}")
    shutil.rmtree(dst, ignore_errors=True)
    os.makedirs(dst)
    for item in ("glotaran", "pyglotaran.egg-info", "setup.cfg", "pyproject.toml", "setup.py", "benchmark", "tox.ini", "README.md"):
        src = os.path.join(REPO, item)
        if os.path.isdir(src):
            shutil.copytree(src, os.path.join(dst, item), ignore=shutil.ignore_patterns("__pycache__"))
        elif os.path.exists(src):
            shutil.copy(src, dst)
    return dst


def apply_mutant(m, root):
    path = os.path.join(root, m["file"])
    s = open(path).read()
    if s.count(m["old"]) != 1:
        raise SystemExit(f"{m['id']}: anchor occurs {s.count(m['old'])} times in {m['file']}")
    open(path, "w").write(s.replace(m["old"], m["new"]))


def cmd_patches():
    for m in catalog():
        root = make_copy("p")
        try:
            apply_mutant(m, root)
            diff = subprocess.run(["diff", "-u", os.path.join(REPO, m["file"]), os.path.join(root, m["file"])],
                                  capture_output=True, text=True).stdout
            diff = diff.replace(os.path.join(REPO, m["file"]), "a/" + m["file"]).replace(os.path.join(root, m["file"]), "b/" + m["file"])
            lines = diff.splitlines(keepends=True)
            lines[0] = lines[0].split("\t")[0] + "\n"
            lines[1] = lines[1].split("\t")[0] + "\n"
            os.makedirs(os.path.join(VERIF, "mutants", m["property"]), exist_ok=True)
            open(os.path.join(VERIF, "mutants", m["property"], m["id"] + ".patch"), "w").write("".join(lines))
        finally:
            shutil.rmtree(root, ignore_errors=True)
    print("patches written")


def run_tests(root, quick_paths=None):
    cmd = ["/venv/bin/python", "-m", "pytest", "-q", "-p", "no:cacheprovider", "--timeout=900", "-x", "-n", "8",
           "--deselect", "glotaran/cli/test/test_cli.py::test_cli_deprecation"]
    if quick_paths:
        cmd += quick_paths
    env = dict(os.environ, PYTHONPATH=root, PYTHONDONTWRITEBYTECODE="1")
    p = subprocess.run(cmd, cwd=root, env=env, capture_output=True, text=True)
    tail = p.stdout.strip().splitlines()[-1] if p.stdout.strip() else p.stderr[-300:]
    return p.returncode, tail


def cmd_tests(ids):
    res = {}
    for m in catalog():
        if ids and m["id"] not in ids:
            continue
        root = make_copy("t")
        try:
            apply_mutant(m, root)
            rc, tail = run_tests(root)
            res[m["id"]] = (rc, tail)
            print(f"{m['id']:40s} tests rc={rc} {tail}", flush=True)
            path = os.path.join(VERIF, "mutants", "tests_status.json")
            st = json.load(open(path)) if os.path.exists(path) else {}
            st[m["id"]] = {"pinned_suite_passes": rc == 0, "summary": tail}
            json.dump(st, open(path, "w"), indent=1, sort_keys=True)
        finally:
            shutil.rmtree(root, ignore_errors=True)
    return res


def run_check(prop, root, tier="quick", extra=()):
    env = dict(os.environ, VERIF_REPO=root)
    env.pop("VERIF_ENV_OK", None)
    t = time.time()
    p = subprocess.run([os.path.join(VERIF, "check"), prop, "--tier", tier, *extra], env=env, capture_output=True, text=True, cwd=VERIF)
    out = p.stdout + p.stderr
    viol = [l for l in out.splitlines() if l.startswith("VIOLATION") or l.startswith("violation:") or l.startswith("HARNESS")]
    return p.returncode, viol, time.time() - t


def cmd_detect(ids, extra=()):
    ok = True
    for m in catalog():
        if ids and m["id"] not in ids:
            continue
        root = make_copy("d")
        try:
            apply_mutant(m, root)
            rc, viol, dt = run_check(m["property"], root, extra=extra)
            status = "DETECTED" if rc == 1 else ("MISSED" if rc == 0 else "HARNESS-ERROR")
            ok &= rc == 1
            print(f"{m['id']:40s} {status} rc={rc} {dt:.0f}s {viol[:2]}", flush=True)
        finally:
            shutil.rmtree(root, ignore_errors=True)
    return 0 if ok else 1


def cmd_seeded(ids, extra=()):
    ok = True
    base = os.environ.get("SEEDED_BASE", os.path.join(VERIF, "seeded"))
    for sid in sorted(os.listdir(base)) if os.path.isdir(base) else []:
        if ids and sid not in ids:
            continue
        meta = json.load(open(os.path.join(base, sid, "meta.json")))
        root = make_copy("s")
        try:
            p = subprocess.run(["patch", "-p1", "-s", "-i", os.path.join(base, sid, "patch.diff")], cwd=root, capture_output=True, text=True)
            if p.returncode:
                print(f"{sid}: patch failed {p.stdout} {p.stderr}")
                ok = False
                continue
            rc, viol, dt = run_check(meta["property"], root, extra=extra)
            status = "DETECTED" if rc == 1 else ("MISSED" if rc == 0 else "HARNESS-ERROR")
            ok &= rc == 1
            print(f"{sid:40s} {meta['property']} {status} rc={rc} {dt:.0f}s {viol[:2]}", flush=True)
        finally:
            shutil.rmtree(root, ignore_errors=True)
    return 0 if ok else 1


if __name__ == "__main__":
    cmd = sys.argv[1]
    rest = sys.argv[2:]
    extra = []
    if "--" in rest:
        i = rest.index("--")
        rest, extra = rest[:i], rest[i + 1:]
    if cmd == "patches":
        cmd_patches()
    elif cmd == "tests":
        cmd_tests(rest)
    elif cmd == "detect":
        sys.exit(cmd_detect(rest, extra))
    elif cmd == "seeded":
        sys.exit(cmd_seeded(rest, extra))
