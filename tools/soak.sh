#!/bin/bash
# soak.sh <ID> <first_seed> <n_seeds> [tier] : run a check over many batch seeds, stop at the first non-zero exit
cd "$(dirname "$0")/.."
ID=$1; S0=$2; N=$3; TIER=${4:-quick}
for ((s=S0; s<S0+N; s++)); do
  out=$(./check $ID --tier $TIER --seed $s 2>&1); rc=$?
  echo "seed=$s rc=$rc $(echo "$out" | grep -E '^\[' | tr '\n' ' ' | cut -c1-300)"
  if [ $rc -ne 0 ]; then echo "$out" | tail -8; mkdir -p soak_failures; cp -r replays soak_failures/$ID-$s 2>/dev/null; exit $rc; fi
done
echo "SOAK-OK $ID seeds $S0..$((S0+N-1)) tier=$TIER"
