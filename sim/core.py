"""Common core of the pyglotaran deterministic simulator.

One integer decides everything: run ``i`` of a batch with batch seed ``S`` for
property ``P`` uses ``run_seed(P, S, i)`` to seed one ``random.Random`` from
which the whole plan (workload, operations, faults, scheduling choices) is
drawn.  Execution takes a *plan* (plain JSON data) and never touches a PRNG or
a clock, so a replay file is just a plan.

This module is import-light on purpose (no numpy / glotaran at import time) so
that the coordinator process never loads numba.
"""

from __future__ import annotations

import hashlib
import json
import math
import os
import sys

VERIF_DIR = os.path.dirname(os.path.dirname(os.path.abspath(__file__)))
REPO = os.path.abspath(os.environ.get("VERIF_REPO", "/repo"))
GUARD = "GLOTARAN_PYGLOTARAN_VERIF"

ENV_FIXED = {
    "PYTHONHASHSEED": "0",
    "OPENBLAS_NUM_THREADS": "1",
    "MKL_NUM_THREADS": "1",
    "NUMBA_NUM_THREADS": "16",
    "OMP_WAIT_POLICY": "passive",
    "PYTHONDONTWRITEBYTECODE": "1",
    "PYTHONWARNINGS": "ignore",
    GUARD: "1",
    "VERIF_ENV_OK": "1",
}
ENV_UNSET = ("OMP_NUM_THREADS", "DEACTIVATE_GTA_PLUGINS", "NUMBA_DISABLE_JIT")


def fixed_env(extra: dict | None = None) -> dict:
    env = dict(os.environ)
    for k in ENV_UNSET:
        env.pop(k, None)
    env.update(ENV_FIXED)
    if extra:
        env.update(extra)
    return env


def ensure_env() -> None:
    """Re-exec the interpreter once under the fixed environment."""
    if os.environ.get("VERIF_ENV_OK") == "1":
        return
    env = fixed_env(
        {"PYTHONHASHSEED": os.environ.get("VERIF_HASHSEED", ENV_FIXED["PYTHONHASHSEED"])}
    )
    os.execve(sys.executable, [sys.executable, *sys.argv], env)


def scratch_root() -> str:
    root = os.environ.get("VERIF_SCRATCH")
    if not root:
        root = "/dev/shm" if os.path.isdir("/dev/shm") and os.access("/dev/shm", os.W_OK) else "/tmp"
    return os.path.join(root, "verif_sim")


def import_glotaran():
    """Import glotaran from the tree under test (VERIF_REPO, default /repo)."""
    if REPO not in sys.path[:1]:
        sys.path.insert(0, REPO)
    import glotaran

    here = os.path.abspath(glotaran.__file__)
    if not here.startswith(REPO + os.sep):
        raise HarnessError(f"glotaran imported from {here}, expected under {REPO}")
    install_order_seams()
    return glotaran


class InsertionOrderedSet:
    """Minimal set whose iteration order is insertion order (not memory addresses)."""

    def __init__(self, iterable=()):
        self._d = dict.fromkeys(iterable)

    def add(self, x):
        self._d[x] = None

    def update(self, *others):
        for o in others:
            for x in o:
                self._d[x] = None

    def __ior__(self, other):
        self.update(other)
        return self

    def __or__(self, other):
        new = InsertionOrderedSet(self._d)
        new.update(other)
        return new

    def __iter__(self):
        return iter(self._d)

    def __len__(self):
        return len(self._d)

    def __contains__(self, x):
        return x in self._d

    def __repr__(self):
        return f"InsertionOrderedSet({list(self._d)})"


_ORDER_SEAMS_INSTALLED = False


def install_order_seams():
    """Put the one address-dependent iteration order of the model layer behind a seam.

    ``load_model`` builds a *set of megacomplex classes* and ``Model.create_class_from_megacomplexes`` a set of
    dataset-model classes; classes hash by address, so the attribute order of the generated model class (and with it
    the sequence of source lines an evaluation executes) differs from process to process.  Nothing numerical depends
    on it, but line-level fault injection and exact replay do.  The simulator fixes the order: classes sorted by
    qualified name, sets in insertion order.  Missing seams are tolerated (a refactoring may have removed the sets).
    """
    global _ORDER_SEAMS_INSTALLED
    if _ORDER_SEAMS_INSTALLED:
        return
    _ORDER_SEAMS_INSTALLED = True
    try:
        import glotaran.model.model as mm

        orig = mm.Model.__dict__["create_class_from_megacomplexes"].__func__

        def create_class_from_megacomplexes(cls, megacomplexes):
            ordered = sorted(megacomplexes, key=lambda c: (c.__module__, c.__qualname__))
            return orig(cls, ordered)

        mm.Model.create_class_from_megacomplexes = classmethod(create_class_from_megacomplexes)
        mm.set = InsertionOrderedSet  # module-level name shadows the builtin inside glotaran.model.model only
    except Exception:  # noqa: BLE001 - seam not available in this tree
        pass


class HarnessError(Exception):
    """Something is wrong with the harness (never reported as a VIOLATION)."""


class RunTimeout(BaseException):
    """One simulated run exceeded its wall-clock allowance (e.g. a solver of a dependency that does not return)."""


class SimCrash(BaseException):
    """Simulated process crash delivered at a fault point."""


class InjectedFault(Exception):
    """Default injected exception type."""


# ---------------------------------------------------------------------------
# seeds and digests
# ---------------------------------------------------------------------------


def run_seed(prop: str, batch_seed: int, i: int) -> int:
    h = hashlib.sha256(f"{prop}:{batch_seed}:{i}".encode()).hexdigest()
    return int(h[:8], 16)


_ADDRESS = __import__("re").compile(r"0x[0-9a-fA-F]{6,}")


def _canon(o):
    if isinstance(o, float):
        if math.isnan(o):
            return "NaN"
        if math.isinf(o):
            return "Infinity" if o > 0 else "-Infinity"
        return o
    if isinstance(o, dict):
        return {str(k): _canon(v) for k, v in o.items()}
    if isinstance(o, (list, tuple)):
        return [_canon(v) for v in o]
    if isinstance(o, str):
        # messages of the system under test may quote object reprs with memory addresses, which differ from
        # process to process and are nobody's behaviour
        return _ADDRESS.sub("0xADDR", o) if "0x" in o else o
    if isinstance(o, (int, bool)) or o is None:
        return o
    # numpy scalars and friends
    try:
        import numpy as np

        if isinstance(o, np.generic):
            return _canon(o.item())
        if isinstance(o, np.ndarray):
            return {"__nd__": arr_digest(o)}
    except ImportError:  # pragma: no cover
        pass
    return repr(o)


def canon(o) -> str:
    return json.dumps(_canon(o), sort_keys=True, separators=(",", ":"))


def digest(o) -> str:
    return hashlib.sha256(canon(o).encode()).hexdigest()


def arr_digest(a) -> str:
    import numpy as np

    a = np.ascontiguousarray(a)
    h = hashlib.sha256()
    h.update(str(a.dtype).encode())
    h.update(str(a.shape).encode())
    h.update(a.tobytes())
    return h.hexdigest()[:24]


def jsonable(o):
    """Plan / outcome data → something json.dump accepts (NaN/inf as strings)."""
    return _canon(o)


def unjson_float(v):
    if v == "NaN":
        return float("nan")
    if v == "Infinity":
        return float("inf")
    if v == "-Infinity":
        return float("-inf")
    return v


# ---------------------------------------------------------------------------
# outcome helpers
# ---------------------------------------------------------------------------


class Recorder:
    """Event log + violations + counters for one simulated run."""

    def __init__(self, prop: str):
        self.prop = prop
        self.events: list = []
        self.violations: list[dict] = []
        self.stats: dict[str, int] = {}
        self.probes: dict[str, int] = {}
        self.faults: dict[str, int] = {}
        self.discarded: str | None = None
        self.oracle_after_fault = 0
        self.logical = {"ops": 0, "evaluations": 0, "steps": 0}

    def event(self, **kw):
        self.events.append(_canon(kw))

    def violate(self, key: str, cls: str, message: str, prop: str | None = None):
        self.violations.append(
            {"property": prop or self.prop, "key": key, "class": cls, "message": message[:2000]}
        )

    def probe(self, name: str, n: int = 1):
        self.probes[name] = self.probes.get(name, 0) + n

    def fault(self, kind: str, n: int = 1):
        self.faults[kind] = self.faults.get(kind, 0) + n

    def stat(self, name: str, n: int = 1):
        self.stats[name] = self.stats.get(name, 0) + n

    def outcome(self, dkey: str, nontrivial: bool) -> dict:
        return {
            "violations": self.violations,
            "event_log_sha256": digest(self.events),
            "n_events": len(self.events),
            "events": self.events,
            "stats": self.stats,
            "probes": self.probes,
            "faults": self.faults,
            "discarded": self.discarded,
            "dkey": dkey,
            "nontrivial": bool(nontrivial),
            "logical": self.logical,
        }


def load_known_findings() -> list[dict]:
    path = os.path.join(VERIF_DIR, "known_findings.json")
    if not os.path.exists(path):
        return []
    with open(path) as f:
        return json.load(f).get("findings", [])
