"""Seeded generator of optimisation schemes ("swarm" workloads).

``gen_spec(rng)`` returns a JSON-serialisable *spec*; ``build_scheme(spec)``
instantiates a brand-new ``Scheme`` (model, parameters, datasets) from it through
the public loaders.  Pristine reference copies are always rebuilt from the spec,
never deep-copied, so they share nothing with the system under test.

Data are synthesised with numpy by the harness itself (no dependency on the code
under test, no global RNG).
"""

from __future__ import annotations

import copy
import random

import numpy as np

METHODS = ["TrustRegionReflection", "Dogbox", "Levenberg-Marquardt"]


def _r(rng: random.Random, lo: float, hi: float, nd: int = 4) -> float:
    return round(rng.uniform(lo, hi), nd)


def gen_spec_oscillation_only(rng: random.Random, *, for_fit: bool = True) -> dict:
    """A scheme without any decay megacomplex: damped oscillations (free frequency / rate) plus optional baseline.

    Unlike the decay megacomplexes these builtin megacomplexes do not reject non-finite parameters themselves, so
    an optimiser that wanders to NaN keeps getting (non-finite) evaluations instead of exceptions.
    """
    feats = ["oscillation-only"]
    n_osc = rng.choice([1, 1, 2])
    method = rng.choice(METHODS)
    feats.append(method)
    irf = rng.random() < 0.4
    params: dict = {"osc": []}
    labels, freqs, rates = [], [], []
    for i in range(n_osc):
        labels.append(f"osc{i + 1}")
        params["osc"].append([f"f{i + 1}", _r(rng, 0.5, 3.0)])
        params["osc"].append([f"r{i + 1}", _r(rng, 0.1, 0.8)])
        freqs.append(f"osc.f{i + 1}")
        rates.append(f"osc.r{i + 1}")
    model: dict = {
        "megacomplex": {"mc_osc": {"type": "damped-oscillation", "labels": labels, "frequencies": freqs, "rates": rates}},
        "dataset": {},
        "dataset_groups": {
            "default": {"residual_function": rng.choice(["variable_projection", "variable_projection", "non_negative_least_squares"])}
        },
    }
    mcs = ["mc_osc"]
    if rng.random() < 0.5:
        model["megacomplex"]["mc_base"] = {"type": "baseline", "dimension": "time"}
        mcs.append("mc_base")
        feats.append("baseline")
    if irf:
        model["irf"] = {"irf1": {"type": "gaussian", "center": "irf.center", "width": "irf.width"}}
        params["irf"] = [["center", _r(rng, 0.2, 0.6), {"vary": False}], ["width", _r(rng, 0.15, 0.4), {"vary": False}]]
        feats.append("irf:gaussian")
    n_ds = rng.choice([1, 1, 2])
    n_t, n_l = rng.randint(10, 24), rng.randint(3, 6)
    data = {}
    for d in range(n_ds):
        label = f"ds{d + 1}"
        dm: dict = {"megacomplex": list(mcs)}
        if irf:
            dm["irf"] = "irf1"
        model["dataset"][label] = dm
        data[label] = {
            "time": [float(x) for x in np.round(np.linspace(-1.0 if irf else 0.0, 8.0, n_t), 6)],
            "spectral": [float(x) for x in np.round(np.linspace(600, 700, n_l), 4)],
            "seed": rng.randrange(2**31),
            "rates": [0.4, 0.1],
            "center": 0.4 if irf else 0.0,
            "noise": rng.choice([0.01, 0.05]),
            "amp": _r(rng, 0.5, 3.0),
            "layout": rng.choice(["time-spectral", "spectral-time"]),
            "weight": None,
        }
    feats.append(f"nds:{n_ds}")
    scheme = {
        "optimization_method": method,
        "maximum_number_function_evaluations": rng.choice([3, 5, 8, 12]) if for_fit else 3,
        "clp_link_tolerance": 0.0,
        "clp_link_method": "nearest",
        "add_svd": rng.random() < 0.5,
        "ftol": 1e-8,
        "gtol": 1e-8,
        "xtol": 1e-8,
    }
    return {"model": model, "parameters": params, "data": data, "scheme": scheme, "features": sorted(set(feats))}


def gen_spec(rng: random.Random, *, for_fit: bool = True, small: bool = False) -> dict:
    """Draw one scheme spec.  Every choice comes from ``rng``."""
    if rng.random() < 0.08:
        return gen_spec_oscillation_only(rng, for_fit=for_fit)
    feats: list[str] = []
    n_comp = rng.choice([1, 2, 2, 3]) if not small else rng.choice([1, 2])
    comps = [f"s{i + 1}" for i in range(n_comp)]
    decay_kind = rng.choice(["decay", "decay-parallel", "decay-sequential"])
    feats.append(decay_kind)
    irf_kind = rng.choice(
        [None, None, "gaussian", "multi-gaussian", "spectral-multi-gaussian", "spectral-gaussian"]
    )
    feats.append(f"irf:{irf_kind}")
    n_ds = rng.choice([1, 1, 2, 2, 3]) if not small else rng.choice([1, 2])
    method = rng.choice(METHODS)
    feats.append(method)

    params: dict = {}
    model: dict = {"megacomplex": {}, "dataset": {}}

    # ---- rates ---------------------------------------------------------
    base_rates = sorted((_r(rng, 0.05, 1.5) for _ in range(n_comp)), reverse=True)
    # keep them apart so the problem stays well conditioned
    for i in range(1, n_comp):
        if base_rates[i - 1] / base_rates[i] < 1.8:
            base_rates[i] = round(base_rates[i - 1] / rng.uniform(2.0, 4.0), 4)
    rate_opts_choice = rng.choice(["plain", "nonneg", "bounds", "mixed"])
    if method == "Levenberg-Marquardt" and rate_opts_choice in ("bounds", "mixed"):
        rate_opts_choice = "nonneg"
    feats.append(f"rates:{rate_opts_choice}")
    rate_list = []
    for i, k in enumerate(base_rates):
        opts: dict = {}
        if rate_opts_choice == "nonneg" or (rate_opts_choice == "mixed" and i % 2 == 0):
            opts["non-negative"] = True
        if rate_opts_choice == "bounds" or (rate_opts_choice == "mixed" and i % 2 == 1):
            opts["min"] = round(k / 20, 5)
            opts["max"] = round(k * 20, 4)
        start = round(k * rng.uniform(0.8, 1.25), 4)
        if "max" in opts and rng.random() < 0.06:
            # an infeasible start value: legal to write down, the optimiser must refuse it and leave it alone
            start = round(opts["max"] * 1.5, 4)
            feats.append("start-outside-bounds")
        rate_list.append([f"k{i + 1}", start, opts] if opts else [f"k{i + 1}", start])
    params["rates"] = rate_list

    # expression parameters: tie the last rate to the first one (chain via aux)
    expr_mode = rng.choice(["none", "none", "simple", "chain", "chain_reversed"])
    if n_comp < 2:
        expr_mode = "none"
    if expr_mode != "none":
        feats.append(f"expr:{expr_mode}")
        ratio = round(base_rates[-1] / base_rates[0], 4)
        last = rate_list[-1]
        if expr_mode == "simple":
            rate_list[-1] = [last[0], last[1], {"expr": f"$rates.k1 * {ratio}"}]
        else:
            aux = ["aux", 0.0, {"expr": f"$rates.k1 * {ratio} * 2"}]
            tied = [last[0], last[1], {"expr": "$rates.aux / 2"}]
            if expr_mode == "chain":
                rate_list[-1] = tied
                rate_list.insert(n_comp - 1, aux)  # aux declared before its user
            else:
                rate_list[-1] = tied
                rate_list.append(aux)  # aux declared after its user

    # ---- megacomplexes -----------------------------------------------
    if decay_kind == "decay":
        kshape = rng.choice(["parallel", "sequential", "branched"]) if n_comp > 1 else "parallel"
        feats.append(f"k:{kshape}")
        matrix = {}
        if kshape == "parallel":
            for i, c in enumerate(comps):
                matrix[f"({c}, {c})"] = f"rates.k{i + 1}"
            jpars = ["j.1"] * n_comp
        elif kshape == "sequential":
            for i in range(n_comp - 1):
                matrix[f"({comps[i + 1]}, {comps[i]})"] = f"rates.k{i + 1}"
            matrix[f"({comps[-1]}, {comps[-1]})"] = f"rates.k{n_comp}"
            jpars = ["j.1"] + ["j.0"] * (n_comp - 1)
        else:  # branched: s1 -> s2 and s1 decays, rest diagonal
            matrix[f"({comps[1]}, {comps[0]})"] = "rates.k1"
            for i in range(1, n_comp):
                matrix[f"({comps[i]}, {comps[i]})"] = f"rates.k{i + 1}"
            jpars = ["j.1"] + ["j.0"] * (n_comp - 1)
            if n_comp > 2:
                jpars[2] = "j.1"
        model["k_matrix"] = {"km1": {"matrix": matrix}}
        model["initial_concentration"] = {"j1": {"compartments": comps, "parameters": jpars}}
        params["j"] = [["1", 1, {"vary": False}], ["0", 0, {"vary": False}]]
        model["megacomplex"]["mc_decay"] = {"type": "decay", "k_matrix": ["km1"]}
    else:
        model["megacomplex"]["mc_decay"] = {
            "type": decay_kind,
            "compartments": comps,
            "rates": [f"rates.k{i + 1}" for i in range(n_comp)],
        }
    mcs = ["mc_decay"]

    # ---- irf -----------------------------------------------------------
    spectral_center = 650.0
    if irf_kind is not None:
        center = _r(rng, 0.2, 1.0)
        width = _r(rng, 0.15, 0.5)
        irf_params = [["center", center], ["width", width]]
        irf: dict = {"type": irf_kind}
        multi = irf_kind in ("multi-gaussian", "spectral-multi-gaussian")
        n_gauss = rng.choice([1, 2, 3]) if multi else 1
        if multi:
            centers, widths, scales = ["irf.center"], ["irf.width"], []
            negexpr = n_gauss > 1 and rng.random() < 0.3
            if negexpr:
                feats.append("nonneg-expression")
            for g in range(1, n_gauss):
                if negexpr and g == 1:
                    # an expression parameter that carries non-negative (as inherited from a group default) and
                    # evaluates negative: its optimiser-space record is log(negative) = NaN
                    irf_params.append(["center2", 0.0, {"expr": "$irf.center - 1.5", "non-negative": True}])
                    irf_params.append([f"width{g + 1}", round(width * (1 + 0.5 * g), 4), {"vary": False}])
                    centers.append("irf.center2")
                    widths.append("irf.width2")
                    continue
                irf_params.append([f"center{g + 1}", round(center + 0.3 * g, 4), {"vary": False}])
                irf_params.append([f"width{g + 1}", round(width * (1 + 0.5 * g), 4), {"vary": False}])
                centers.append(f"irf.center{g + 1}")
                widths.append(f"irf.width{g + 1}")
            irf["center"], irf["width"] = centers, widths
            if n_gauss > 1 and rng.random() < 0.7:
                for g in range(n_gauss):
                    irf_params.append([f"scale{g + 1}", round(1.0 / (g + 1), 4), {"vary": False}])
                    scales.append(f"irf.scale{g + 1}")
                irf["scale"] = scales
            feats.append(f"ngauss:{n_gauss}")
        else:
            irf["center"], irf["width"] = "irf.center", "irf.width"
        if irf_kind.startswith("spectral"):
            irf_params.append(["dispc", spectral_center, {"vary": False}])
            irf["dispersion_center"] = "irf.dispc"
            ncd = rng.choice([1, 2])
            cds = []
            for d in range(ncd):
                irf_params.append([f"cd{d + 1}", _r(rng, -0.3, 0.3) / (10**d), {"vary": rng.random() < 0.5}])
                cds.append(f"irf.cd{d + 1}")
            irf["center_dispersion_coefficients"] = cds
            if rng.random() < 0.5:
                irf_params.append(["wd1", _r(rng, 0.0, 0.1), {"vary": False}])
                irf["width_dispersion_coefficients"] = ["irf.wd1"]
                feats.append("widthdisp")
            if rng.random() < 0.3:
                irf["model_dispersion_with_wavenumber"] = True
        if rng.random() < 0.25:
            irf["backsweep"] = True
            irf_params.append(["bsp", _r(rng, 30.0, 60.0), {"vary": False}])
            irf["backsweep_period"] = "irf.bsp"
            feats.append("backsweep")
        if rng.random() < 0.2:
            irf["normalize"] = False
        if rng.random() < 0.2 and multi is False and not irf_kind.startswith("spectral"):
            pass
        model["irf"] = {"irf1": irf}
        params["irf"] = irf_params

    # ---- extra megacomplexes ------------------------------------------
    if rng.random() < 0.3:
        model["megacomplex"]["mc_base"] = {"type": "baseline", "dimension": "time"}
        mcs.append("mc_base")
        feats.append("baseline")
    if irf_kind is not None and rng.random() < 0.3:
        model["megacomplex"]["mc_coh"] = {"type": "coherent-artifact", "order": rng.choice([1, 2, 3])}
        if rng.random() < 0.4:
            params.setdefault("coh", []).append(["width", _r(rng, 0.1, 0.4), {"vary": False}])
            model["megacomplex"]["mc_coh"]["width"] = "coh.width"
        mcs.append("mc_coh")
        feats.append("coherent")
    if rng.random() < 0.2:
        model["megacomplex"]["mc_osc"] = {
            "type": "damped-oscillation",
            "labels": ["osc1"],
            "frequencies": ["osc.freq"],
            "rates": ["osc.rate"],
        }
        params["osc"] = [["freq", _r(rng, 5.0, 30.0), {"vary": False}], ["rate", _r(rng, 0.3, 2.0), {"vary": False}]]
        mcs.append("mc_osc")
        feats.append("oscillation")

    if irf_kind is not None and rng.random() < 0.12:
        model["megacomplex"]["mc_pfid"] = {
            "type": "pfid",
            "labels": ["pfid1"],
            "frequencies": ["pfid.freq"],
            "rates": ["pfid.rate"],
        }
        params["pfid"] = [["freq", _r(rng, 620.0, 680.0, 1), {"vary": False}], ["rate", -_r(rng, 0.3, 2.0), {"vary": False}]]
        mcs.append("mc_pfid")
        feats.append("pfid")

    # ---- datasets --------------------------------------------------------
    n_t = rng.randint(8, 16) if small else rng.randint(10, 40)
    n_l = rng.randint(3, 5) if small else rng.randint(3, 10)
    t0 = -1.0 if irf_kind is not None else 0.0
    t_end = _r(rng, 6.0, 15.0, 2)
    link_mode = rng.choice(["auto", "true", "false"]) if n_ds > 1 else rng.choice(["auto", "false"])
    axis_mode = rng.choice(["same", "shifted", "overlap"]) if n_ds > 1 else "same"
    full_model = rng.random() < 0.15
    two_groups = n_ds > 1 and rng.random() < 0.3 and not full_model
    if full_model and link_mode == "true":
        link_mode = "false"
    resid = rng.choice(["variable_projection", "variable_projection", "non_negative_least_squares"])
    feats += [f"nds:{n_ds}", f"link:{link_mode}", f"axes:{axis_mode}", f"resid:{resid}"]
    groups: dict = {"default": {"residual_function": resid}}
    if link_mode != "auto":
        groups["default"]["link_clp"] = link_mode == "true"
    if two_groups:
        groups["g2"] = {
            "residual_function": rng.choice(["variable_projection", "non_negative_least_squares"]),
            "link_clp": False,
        }
        feats.append("twogroups")
    model["dataset_groups"] = groups

    data: dict = {}
    tol = 0.0
    for d in range(n_ds):
        label = f"ds{d + 1}"
        dm: dict = {"megacomplex": list(mcs)}
        if decay_kind == "decay":
            dm["initial_concentration"] = "j1"
        if irf_kind is not None:
            dm["irf"] = "irf1"
        if two_groups and d == n_ds - 1:
            dm["group"] = "g2"
        if d > 0 and rng.random() < 0.6:
            params.setdefault("scale", []).append([label, _r(rng, 0.6, 1.6), {"vary": rng.random() < 0.5}])
            dm["scale"] = f"scale.{label}"
            feats.append("dsscale")
        if len(mcs) > 1 and rng.random() < 0.25:
            ms = []
            for mi, _ in enumerate(mcs):
                params.setdefault("mcscale", []).append([f"{label}m{mi}", _r(rng, 0.5, 2.0), {"vary": False}])
                ms.append(f"mcscale.{label}m{mi}")
            dm["megacomplex_scale"] = ms
            feats.append("mcscale")
        if rng.random() < 0.1:
            dm["force_index_dependent"] = True
            feats.append("forceindex")
        model["dataset"][label] = dm

        time = np.round(np.linspace(t0, t_end, n_t - (d if axis_mode != "same" else 0)), 6)
        if axis_mode == "same" or d == 0:
            lam = np.round(np.linspace(600, 700, n_l), 4)
        elif axis_mode == "shifted":
            lam = np.round(np.linspace(600, 700, n_l) + 0.3 * d, 4)
            tol = 1.0
        else:
            lam = np.round(np.linspace(600, 700, n_l)[d:] , 4)
            if len(lam) < 2:
                lam = np.round(np.linspace(600, 700, n_l), 4)
        data[label] = {
            "time": [float(x) for x in time],
            "spectral": [float(x) for x in lam],
            "seed": rng.randrange(2**31),
            "rates": [float(k) for k in base_rates],
            "center": 0.0 if irf_kind is None else 0.4,
            "noise": rng.choice([0.0, 0.01, 0.05]),
            "amp": _r(rng, 0.5, 3.0),
            "layout": rng.choice(["time-spectral", "spectral-time"]),
            "order": rng.choice(["C", "C", "C", "F"]),  # memory order of the caller's arrays
            "weight": None,
        }

    # full model: a spectral global megacomplex on the first dataset
    if full_model:
        shapes = {}
        mshape = {}
        for i, c in enumerate(comps):
            params.setdefault("shape", []).extend(
                [
                    [f"amp{i + 1}", _r(rng, 0.5, 2.0), {"vary": rng.random() < 0.5}],
                    [f"loc{i + 1}", _r(rng, 610, 690, 1), {"vary": False}],
                    [f"wid{i + 1}", _r(rng, 10, 40, 1), {"vary": False}],
                ]
            )
            shapes[f"sh{i + 1}"] = {
                "type": "gaussian",
                "amplitude": f"shape.amp{i + 1}",
                "location": f"shape.loc{i + 1}",
                "width": f"shape.wid{i + 1}",
            }
            mshape[c] = f"sh{i + 1}"
        model["shape"] = shapes
        model["megacomplex"]["mc_spec"] = {"type": "spectral", "shape": mshape}
        axis_scale = rng.choice([None, None, 2.0, 0.5])
        for label in model["dataset"]:
            model["dataset"][label]["megacomplex"] = ["mc_decay"]
            model["dataset"][label]["global_megacomplex"] = ["mc_spec"]
            model["dataset"][label].pop("megacomplex_scale", None)
            if axis_scale is not None:
                model["dataset"][label]["spectral_axis_scale"] = axis_scale
        if axis_scale is not None:
            for item in params["shape"]:
                if item[0].startswith(("loc", "wid")):
                    item[1] = round(item[1] * axis_scale, 3)
            feats.append("axisscale")
        for m in ("mc_base", "mc_coh", "mc_osc", "mc_pfid"):
            model["megacomplex"].pop(m, None)
        feats.append("fullmodel")

    # ---- clp guide: an extra one-row dataset pinning the spectrum of the first compartment -----------
    if (
        not full_model
        and not two_groups
        and axis_mode == "same"
        and link_mode in ("auto", "true")
        and rng.random() < 0.12
    ):
        model["megacomplex"]["mc_guide"] = {"type": "clp-guide", "dimension": "time", "target": comps[0]}
        model["dataset"]["guide"] = {"megacomplex": ["mc_guide"]}
        groups["default"]["link_clp"] = True
        first = data[sorted(data)[0]]
        data["guide"] = {
            "time": [0.0],
            "spectral": list(first["spectral"]),
            "seed": rng.randrange(2**31),
            "rates": [0.0],
            "center": -1.0,
            "noise": 0.0,
            "amp": first["amp"],
            "layout": "time-spectral",
            "weight": None,
        }
        feats.append("clpguide")

    # ---- weights ---------------------------------------------------------
    wmode = rng.choice(["none", "none", "dataset", "model"])
    if wmode == "dataset":
        lab = rng.choice(sorted(data))
        data[lab]["weight"] = {"seed": rng.randrange(2**31), "lo": 0.5, "hi": 1.5}
        feats.append("dsweight")
    elif wmode == "model":
        w: dict = {"datasets": [rng.choice(sorted(data))], "value": _r(rng, 0.3, 2.0)}
        if rng.random() < 0.7:
            w["global_interval"] = [620.0, 680.0]
        if rng.random() < 0.5:
            w["model_interval"] = [0.5, 5.0]
        model["weights"] = [w]
        feats.append("modelweight")

    # ---- constraints / relations / penalties ---------------------------
    if not full_model:
        if n_comp > 1 and rng.random() < 0.3:
            c: dict = {"type": rng.choice(["zero", "only"]), "target": comps[-1]}
            c["interval"] = [[600.0, _r(rng, 620, 660, 1)]]
            model["clp_constraints"] = [c]
            feats.append(f"constraint:{c['type']}")
        if n_comp > 1 and rng.random() < 0.3:
            params.setdefault("rel", []).append(["r1", _r(rng, 0.5, 2.0), {"vary": rng.random() < 0.5}])
            rel: dict = {"source": comps[0], "target": comps[1], "parameter": "rel.r1"}
            if rng.random() < 0.5:
                rel["interval"] = [[_r(rng, 630, 670, 1), 700.0]]
            model["clp_relations"] = [rel]
            feats.append("relation")
        if n_comp > 1 and rng.random() < 0.3:
            params.setdefault("pen", []).append(["p1", _r(rng, 0.5, 2.0), {"vary": rng.random() < 0.3}])
            model["clp_penalties"] = [
                {
                    "type": "equal_area",
                    "source": comps[0],
                    "source_intervals": [[600.0, 700.0]],
                    "target": comps[-1],
                    "target_intervals": [[600.0, _r(rng, 650, 700, 1)]],
                    "parameter": "pen.p1",
                    "weight": _r(rng, 0.01, 0.5),
                }
            ]
            feats.append("penalty")

    scheme = {
        "optimization_method": method,
        "maximum_number_function_evaluations": rng.choice([3, 5, 8, 12]) if for_fit else 3,
        "clp_link_tolerance": tol,
        # 'forward' on identical axes raises AlignDatasetError on this tree (C09 territory): keep it for shifted axes
        "clp_link_method": rng.choice(["nearest", "backward", "forward"] if tol > 0 else ["nearest", "backward", "nearest"]),
        "add_svd": rng.random() < 0.3,
        "ftol": 1e-8,
        "gtol": 1e-8,
        "xtol": 1e-8,
    }
    return {"model": model, "parameters": params, "data": data, "scheme": scheme, "features": sorted(set(feats))}


# ---------------------------------------------------------------------------
# instantiation
# ---------------------------------------------------------------------------


def synth_data(dspec: dict) -> np.ndarray:
    """Synthetic (time x spectral) data from a dataset spec; pure numpy."""
    t = np.asarray(dspec["time"], dtype=float)
    lam = np.asarray(dspec["spectral"], dtype=float)
    rg = np.random.default_rng(dspec["seed"])
    out = np.zeros((t.size, lam.size))
    c = dspec["center"]
    for i, k in enumerate(dspec["rates"]):
        conc = np.where(t >= c, np.exp(-k * np.clip(t - c, 0, None)), 0.0)
        loc = 620.0 + 30.0 * i
        spec = np.exp(-0.5 * ((lam - loc) / 25.0) ** 2)
        out += dspec["amp"] * np.outer(conc, spec)
    if dspec["noise"]:
        out += rg.normal(0.0, dspec["noise"], out.shape)
    return out


def build_datasets(spec: dict) -> dict:
    import xarray as xr

    result = {}
    for label, ds in spec["data"].items():
        arr = synth_data(ds)
        coords = {"time": np.asarray(ds["time"], dtype=float), "spectral": np.asarray(ds["spectral"], dtype=float)}
        fortran = ds.get("order") == "F"
        if ds["layout"] == "time-spectral":
            values = np.asfortranarray(arr) if fortran else arr.copy()
            da = xr.DataArray(values, coords=coords, dims=("time", "spectral"))
        else:
            values = np.asfortranarray(arr.T) if fortran else arr.T.copy()
            da = xr.DataArray(values, coords=coords, dims=("spectral", "time"))
        dataset = da.to_dataset(name="data")
        if ds.get("weight"):
            w = ds["weight"]
            rg = np.random.default_rng(w["seed"])
            warr = rg.uniform(w["lo"], w["hi"], da.shape)
            if fortran:
                warr = np.asfortranarray(warr)
            dataset["weight"] = (da.dims, warr)
        result[label] = dataset
    return result


def model_yml(spec: dict) -> str:
    import yaml

    return yaml.safe_dump(spec["model"], sort_keys=False)


def parameters_yml(spec: dict) -> str:
    import yaml

    return yaml.safe_dump(spec["parameters"], sort_keys=False)


def build_parameters(spec: dict):
    from glotaran.io import load_parameters

    return load_parameters(parameters_yml(spec), format_name="yml_str")


def build_model(spec: dict):
    from glotaran.io import load_model

    return load_model(model_yml(spec), format_name="yml_str")


def build_scheme(spec: dict, **overrides):
    """Instantiate a fresh Scheme sharing nothing with any earlier instantiation."""
    from glotaran.project import Scheme

    opts = dict(spec["scheme"])
    opts.update(overrides)
    return Scheme(
        model=build_model(spec),
        parameters=build_parameters(spec),
        data=build_datasets(spec),
        **opts,
    )


def spec_copy(spec: dict) -> dict:
    return copy.deepcopy(spec)
