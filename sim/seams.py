"""Seams the simulator owns: evaluation-path fault injection, scripted optimiser
driver, stdout sentinel, scheme snapshots, reference evaluation.

Nothing here edits /repo; everything is a monkeypatch installed for the
duration of one simulated run and removed afterwards.
"""

from __future__ import annotations

import io
import os
import sys
import warnings

import numpy as np

from sim import core
from sim.core import InjectedFault
from sim.core import SimCrash

EXC_TYPES = {
    "InjectedFault": InjectedFault,
    "ValueError": ValueError,
    "LinAlgError": np.linalg.LinAlgError,
    "FloatingPointError": FloatingPointError,
    "ZeroDivisionError": ZeroDivisionError,
    "MemoryError": MemoryError,
    "OSError": OSError,
    "RuntimeError": RuntimeError,
    "KeyError": KeyError,
    "IndexError": IndexError,
    "KeyboardInterrupt": KeyboardInterrupt,
    "SimCrash": SimCrash,
    # message shapes a handler might trip over
    "StopIteration": StopIteration,
    "EmptyMessage": NotImplementedError,
    "Multiline": RuntimeError,
}


def make_exc(name: str, tag: str):
    cls = EXC_TYPES[name]
    if name == "EmptyMessage":
        return cls()  # str(e) == ""
    if name == "Multiline":
        return cls(f"injected failure [{tag}]\nsecond line with details\n\nfourth line")
    if cls is OSError:
        return OSError(28, f"No space left on device [{tag}]")
    return cls(f"injected {name} [{tag}]")


class StdoutSentinel(io.StringIO):
    """Stand-in for the caller's sys.stdout; identity is compared afterwards."""


class WriteOnlyStdout:
    """A caller's stdout replacement that only knows ``write`` (a log adapter)."""

    def __init__(self):
        self.parts = []

    def write(self, data):
        self.parts.append(data)
        return len(data)

    def getvalue(self):
        return "".join(self.parts)


class FlushRaisesStdout(WriteOnlyStdout):
    """A stream whose ``flush`` fails (closed pipe)."""

    def flush(self):
        raise BrokenPipeError(32, "Broken pipe (injected)")


GLOTARAN_DIR = os.path.join(core.REPO, "glotaran") + os.sep


def _is_sut_file(filename: str) -> bool:
    return filename.startswith(GLOTARAN_DIR) and "/test/" not in filename


class EvalSeams:
    """Wrappers on the objective-evaluation path of ``glotaran.optimization``.

    Counts optimiser-driven evaluations (calls of ``Optimizer.objective_function``
    while ``least_squares`` - real or scripted - is on the stack), records the x of
    each, and delivers at most one planned fault.
    """

    def __init__(self, rec=None, driver=None):
        self.rec = rec
        self.driver = driver  # None -> real scipy least_squares
        self._undo: list = []
        self.reset(None)
        self.total_model_evaluations = 0  # every OptimizationGroup.calculate, ever
        self.trace_until_history = True  # line faults stop before the history record is appended
        self.on_group_calculate = None  # optional probe callback(parameters)

    # -- per optimize() call state ------------------------------------------
    def reset(self, fault: dict | None):
        self.fault = fault
        self.in_ls = False
        self.eval_no = 0
        self.in_eval = False
        self.xs: list = []
        self.completed: list = []
        self.finite: list = []  # did the completed evaluation return a finite penalty vector?
        self.penalties: list = []
        self.site_counts: dict = {}
        self.fired: list = []
        self.escaped = None
        self.injected = None  # the exception object a seam fault raised (model code raising it, outside asteval)
        self.line_count = 0
        self.line_total = 0
        self.line_site = None
        self.group_calls = 0
        self.region_active = False

    # -- installation ------------------------------------------------------------
    def _patch(self, obj, name, new):
        old = obj.__dict__[name] if isinstance(obj, type) else getattr(obj, name)
        self._undo.append((obj, name, old))
        setattr(obj, name, new)

    def __enter__(self):
        import glotaran.model.dataset_group as dg
        import glotaran.optimization.estimation_provider as ep
        import glotaran.optimization.optimizer as om
        from glotaran.optimization.optimization_group import OptimizationGroup
        from glotaran.plugin_system.megacomplex_registration import get_megacomplex
        from glotaran.plugin_system.megacomplex_registration import known_megacomplex_names

        seams = self
        real_ls = om.least_squares
        self.real_least_squares = real_ls

        def ls_wrapper(fun, x0, *a, **kw):
            seams.in_ls = True
            try:
                if seams.driver is not None:
                    return seams.driver(fun, x0, *a, **kw)
                return real_ls(fun, x0, *a, **kw)
            finally:
                seams.in_ls = False

        self._patch(om, "least_squares", ls_wrapper)

        orig_obj = om.Optimizer.__dict__["objective_function"]

        def objective_wrapper(opt, parameters):
            if not seams.in_ls:
                return orig_obj(opt, parameters)
            seams.eval_no += 1
            k = seams.eval_no
            seams.in_eval = True
            seams.site_counts = {}
            seams.xs.append(np.array(parameters, dtype=float, copy=True))
            seams.completed.append(False)
            seams.finite.append(False)
            f = seams.fault
            tracing = False
            try:
                if f and f.get("k") == k and f["kind"] in ("exc", "base") and f["site"] == "objective":
                    seams._fire(f, "objective")
                if f and f.get("k") == k and f["kind"] in ("exc", "base") and f["site"] == "line":
                    seams.line_count = 0
                    tracing = True
                    sys.settrace(seams._global_trace)
                out = orig_obj(opt, parameters)
            except BaseException as e:
                if seams.escaped is None:
                    seams.escaped = e
                raise
            finally:
                if tracing:
                    sys.settrace(None)
                    seams.line_total = max(seams.line_total, seams.line_count)
                seams.in_eval = False
            seams.completed[-1] = True
            seams.finite[-1] = bool(np.all(np.isfinite(out)))
            seams.penalties.append(np.array(out, dtype=float, copy=True))
            return out

        self._patch(om.Optimizer, "objective_function", objective_wrapper)

        orig_calc = OptimizationGroup.__dict__["calculate"]

        def calc_wrapper(group, parameters):
            seams.total_model_evaluations += 1
            seams.group_calls += 1
            if seams.on_group_calculate is not None:
                seams.on_group_calculate(parameters)
            f = seams.fault
            if f and f["kind"] == "region_nan":
                v = parameters.get(f["param"]).value
                seams.region_active = (f["dir"] == ">" and v > f["theta"]) or (f["dir"] == "<" and v < f["theta"])
            if f and f["kind"] == "region":
                v = parameters.get(f["param"]).value
                if (f["dir"] == ">" and v > f["theta"]) or (f["dir"] == "<" and v < f["theta"]):
                    seams.fired.append({"kind": "region", "eval": seams.eval_no, "in_ls": seams.in_ls})
                    raise make_exc(f["exc"], f"region {f['param']}{f['dir']}{f['theta']}")
            if f and f["kind"] == "post_ls" and not seams.in_ls and seams.eval_no > 0 and not seams.fired:
                seams.fired.append({"kind": "post_ls", "eval": seams.eval_no})
                raise make_exc(f["exc"], "re-evaluation inside create_result")
            seams._site("group")
            return orig_calc(group, parameters)

        self._patch(OptimizationGroup, "calculate", calc_wrapper)

        # the remaining seams are optional fault sites: if a refactoring renamed one of them the site is simply
        # unavailable (recorded), it must never turn into a harness error or a false alarm
        self.unavailable = []
        if hasattr(dg, "fill_item"):
            orig_fill = dg.fill_item

            def fill_wrapper(*a, **kw):
                seams._site("fill_item")
                return orig_fill(*a, **kw)

            self._patch(dg, "fill_item", fill_wrapper)
        else:
            self.unavailable.append("fill_item")

        seen = set()
        try:
            names = known_megacomplex_names()
        except Exception:  # noqa: BLE001
            names = []
            self.unavailable.append("megacomplex registry")
        for name in names:
            cls = get_megacomplex(name)
            if cls in seen or "calculate_matrix" not in cls.__dict__:
                continue
            seen.add(cls)
            self._patch(cls, "calculate_matrix", self._matrix_wrapper(cls.__dict__["calculate_matrix"]))

        table = getattr(ep, "SUPPORTED_RESIUDAL_FUNCTIONS", None)
        if isinstance(table, dict):
            for key, fn in list(table.items()):
                table[key] = self._residual_wrapper(fn)
                self._undo.append((table, key, fn))
        else:
            self.unavailable.append("residual function table")
        return self

    def __exit__(self, *exc):
        sys.settrace(None)
        for obj, name, old in reversed(self._undo):
            if isinstance(obj, dict):
                obj[name] = old
            else:
                setattr(obj, name, old)
        self._undo.clear()
        return False

    # -- fault delivery ------------------------------------------------------
    def _fire(self, f, site):
        self.fired.append({"kind": f["kind"], "site": site, "eval": self.eval_no, "exc": f["exc"]})
        self.injected = make_exc(f["exc"], f"eval {self.eval_no} site {site}")
        if f.get("swap_stdout"):
            # the model code that fails had redirected stdout for itself and never gets to undo it
            sys.stdout = io.StringIO()
        raise self.injected

    def _site(self, site):
        if not self.in_eval:
            return
        n = self.site_counts.get(site, 0) + 1
        self.site_counts[site] = n
        f = self.fault
        if (
            f
            and f["kind"] in ("exc", "base")
            and f.get("k") == self.eval_no
            and f["site"] == site
            and f.get("j", 1) == n
        ):
            self._fire(f, site)

    def _matrix_wrapper(self, orig):
        seams = self

        def calculate_matrix(mc, *a, **kw):
            seams._site("matrix")
            out = orig(mc, *a, **kw)
            f = seams.fault
            if f and f["kind"] == "region_nan" and seams.region_active:
                # persistent, parameter-dependent: the model yields non-finite numbers "out there" (no exception)
                labels, matrix = out
                matrix = np.array(matrix, dtype=float, copy=True)
                matrix[...] = np.nan
                if not seams.fired or seams.fired[-1].get("eval") != seams.eval_no:
                    seams.fired.append({"kind": "region_nan", "eval": seams.eval_no, "in_ls": seams.in_ls})
                return labels, matrix
            if (
                seams.in_eval
                and f
                and f["kind"] == "nonfinite"
                and f["k"] == seams.eval_no
                and f.get("j", 1) == seams.site_counts.get("matrix", 0)
            ):
                labels, matrix = out
                matrix = np.array(matrix, dtype=float, copy=True)
                val = {"nan": np.nan, "inf": np.inf, "-inf": -np.inf}[f["value"]]
                if f.get("where") == "one":
                    matrix.flat[f.get("flat", 0) % matrix.size] = val
                else:
                    matrix[...] = val
                seams.fired.append({"kind": "nonfinite", "eval": seams.eval_no, "value": f["value"]})
                return labels, matrix
            return out

        return calculate_matrix

    def _residual_wrapper(self, orig):
        seams = self

        def residual(matrix, data):
            seams._site("residual")
            return orig(matrix, data)

        residual.__name__ = getattr(orig, "__name__", "residual")
        return residual

    # -- line level crash points ----------------------------------------------------
    def _global_trace(self, frame, event, arg):
        code = frame.f_code
        if not _is_sut_file(code.co_filename):
            return None
        if (
            self.trace_until_history
            and code.co_name == "append"
            and code.co_filename.endswith("parameter_history.py")
        ):
            # the evaluation is about to be recorded: stop injecting
            sys.settrace(None)
            return None
        return self._local_trace

    def _local_trace(self, frame, event, arg):
        if event == "line":
            self.line_count += 1
            f = self.fault
            if f and self.line_count == f["n"] and not self.fired:
                self.line_site = (
                    os.path.relpath(frame.f_code.co_filename, core.REPO),
                    frame.f_lineno,
                    frame.f_code.co_name,
                )
                self.fired.append(
                    {"kind": f["kind"], "site": "line", "eval": self.eval_no, "exc": f["exc"], "at": list(self.line_site)}
                )
                raise make_exc(f["exc"], f"eval {self.eval_no} line {f['n']}")
        return self._local_trace


# ---------------------------------------------------------------------------
# scripted optimiser
# ---------------------------------------------------------------------------


class ScriptedDriver:
    """Plays scipy: evaluates ``fun`` at a generated list of points.

    ``steps`` are offsets relative to x0 (optimiser space); ``final`` is the index
    of the step whose x is reported as solution.
    """

    def __init__(self, steps: list, final: int = -1):
        self.steps = steps
        self.final = final
        self.calls = 0

    def __call__(self, fun, x0, bounds=None, **kw):
        from scipy.optimize import OptimizeResult

        x0 = np.asarray(x0, dtype=float)
        lb, ub = (np.asarray(b, dtype=float) for b in bounds) if bounds is not None else (None, None)
        xs, fs = [], []
        for step in self.steps:
            x = x0 + np.resize(np.asarray(step, dtype=float), x0.shape) if x0.size else x0.copy()
            if lb is not None:
                x = np.minimum(np.maximum(x, lb), ub)
            self.calls += 1
            fs.append(np.atleast_1d(fun(x)))
            xs.append(x)
        i = self.final if self.final >= 0 else len(xs) - 1
        x, f = xs[i], fs[i]
        return OptimizeResult(
            x=x,
            cost=0.5 * float(np.dot(f, f)),
            fun=f,
            jac=np.zeros((f.size, x.size)) + 1e-3,
            grad=np.zeros(x.size),
            optimality=0.0,
            active_mask=np.zeros(x.size, dtype=int),
            nfev=len(xs),
            njev=1,
            status=1,
            message="scripted driver finished",
            success=True,
        )


# ---------------------------------------------------------------------------
# snapshots of the caller's scheme
# ---------------------------------------------------------------------------


def _f(v):
    if isinstance(v, float):
        return float(v).hex() if v == v else "nan"
    return v


def snapshot_parameters(parameters) -> list:
    out = []
    for p in parameters.all():
        d = p.as_dict()
        out.append({k: _f(v) for k, v in d.items()})
    return out


def snapshot_data(data) -> dict:
    snap = {}
    for label, ds in data.items():
        entry = {}
        for name in list(ds.data_vars) + list(ds.coords):
            entry[str(name)] = (tuple(ds[name].dims), core.arr_digest(ds[name].values))
        snap[label] = entry
    return snap


def snapshot_scheme(scheme) -> dict:
    opts = {
        k: getattr(scheme, k)
        for k in (
            "clp_link_tolerance",
            "clp_link_method",
            "maximum_number_function_evaluations",
            "add_svd",
            "ftol",
            "gtol",
            "xtol",
            "optimization_method",
            "result_path",
        )
    }
    return {
        "parameters": snapshot_parameters(scheme.parameters) if scheme.parameters is not None else None,
        "model": core.canon(scheme.model.as_dict()),
        "data": snapshot_data(scheme.data),
        "options": core.canon(opts),
    }


def diff_snapshot(before: dict, after: dict) -> list[str]:
    """What changed, ignoring variables *added* to datasets (documented add_svd)."""
    diffs = []
    if before["parameters"] != after["parameters"]:
        b, a = before["parameters"], after["parameters"]
        if b is None or a is None or len(b) != len(a):
            diffs.append("parameters: set or order changed")
        else:
            for pb, pa in zip(b, a):
                if pb != pa:
                    ch = [k for k in pb if pb.get(k) != pa.get(k)]
                    diffs.append(f"parameter {pb['label']}: {ch} {[(pb[k], pa.get(k)) for k in ch]}")
    if before["model"] != after["model"]:
        diffs.append("model changed")
    if before["options"] != after["options"]:
        diffs.append("scheme options changed")
    for label, vars_b in before["data"].items():
        vars_a = after["data"].get(label)
        if vars_a is None:
            diffs.append(f"dataset {label} removed")
            continue
        for name, dig in vars_b.items():
            if vars_a.get(name) != dig:
                diffs.append(f"dataset {label}.{name} changed")
    for label in after["data"]:
        if label not in before["data"]:
            diffs.append(f"dataset {label} added")
    return diffs


# ---------------------------------------------------------------------------
# reference (stateless) evaluation
# ---------------------------------------------------------------------------


class Reference:
    """Stateless evaluation on a pristine re-instantiation of the scheme.

    Uses only public pieces: ``Parameters`` setters, ``OptimizationGroup`` and its
    ``calculate`` / ``get_full_penalty`` / ``create_result_data``.
    """

    def __init__(self, spec: dict, build=None):
        from sim import workloads

        self.spec = spec
        self._build = build or workloads.build_scheme

    def _groups(self, scheme):
        from glotaran.optimization.optimization_group import OptimizationGroup

        return [OptimizationGroup(scheme, g) for g in scheme.model.get_dataset_groups().values()]

    def penalty_at_x(self, free_labels, x):
        scheme = self._build(self.spec, add_svd=False)
        scheme.parameters.set_from_label_and_value_arrays(list(free_labels), np.asarray(x, dtype=float))
        return self._penalty(scheme)

    def _penalty(self, scheme):
        groups = self._groups(scheme)
        for g in groups:
            g.calculate(scheme.parameters)
        pens = [g.get_full_penalty() for g in groups]
        return np.concatenate(pens) if len(pens) != 1 else np.asarray(pens[0])

    def at_values(self, values: dict, want_data: bool = True):
        """Penalty and result datasets at explicit real-space parameter values."""
        scheme = self._build(self.spec, add_svd=False)
        for p in scheme.parameters.all():
            if p.expression is None and p.label in values:
                p.value = float(values[p.label])
        scheme.parameters.update_parameter_expression()
        groups = self._groups(scheme)
        data = {}
        for g in groups:
            g.calculate(scheme.parameters)
        pens = [g.get_full_penalty() for g in groups]
        penalty = np.concatenate(pens) if len(pens) != 1 else np.asarray(pens[0])
        if want_data:
            for g in groups:
                data.update(g.create_result_data())
        return penalty, data


def rel_err(a, b) -> float:
    a = np.asarray(a, dtype=float)
    b = np.asarray(b, dtype=float)
    if a.shape != b.shape:
        return float("inf")
    if a.size == 0:
        return 0.0
    fa, fb = np.isfinite(a), np.isfinite(b)
    if not np.array_equal(fa, fb):
        return float("inf")
    if not fa.all():
        if not np.array_equal(a[~fa], b[~fb], equal_nan=True):
            return float("inf")
        a, b = a[fa], b[fb]
        if a.size == 0:
            return 0.0
    return float(np.linalg.norm(a - b) / (1.0 + np.linalg.norm(b)))


def quiet():
    """Context manager silencing warnings per op while still recording them."""
    cm = warnings.catch_warnings(record=True)
    return cm
