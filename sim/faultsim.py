"""C15 — failures during optimisation are contained and reported.

One simulated run = one generated scheme, a fault-free baseline ``optimize()``,
a list of fault-armed ``optimize()`` calls on the *same caller-owned scheme*,
invalid-scheme probes, and a fault-free recovery run.  See DESIGN.md §4.15.
"""

from __future__ import annotations

import random
import sys
import warnings

import numpy as np

from sim import core
from sim import seams as S
from sim import workloads

PROP = "C15"
NAME = "faultsim"

RULE = (
    "faultsim: one run = generated scheme x method x verbose x raise_exception, fault-free baseline, 2-6 fault-armed "
    "optimize() calls (thorough 'all' mode: one per evaluation k=1..N), invalid-scheme probes, recovery run; distinct = digest of "
    "(scheme feature vector, set of (method, driver, phase, fault kind, site, exception type, verbose, raise_exception) cells); "
    "non-trivial = at least one fault fired AND its outcome oracle was evaluated"
)
REAL_VS_STUB = {
    "real": "optimize(), Optimizer, scipy least_squares (trf/dogbox/lm), providers, megacomplexes, numba kernels, TeeContext",
    "stub": "in ~25% of runs scipy least_squares is replaced by a scripted driver producing schedules scipy would not",
}
EXC_CHOICES = [
    "InjectedFault",
    "ValueError",
    "LinAlgError",
    "FloatingPointError",
    "ZeroDivisionError",
    "MemoryError",
    "OSError",
    "RuntimeError",
    "KeyError",
    "EmptyMessage",
    "Multiline",
    "StopIteration",
]
SITES = ["objective", "group", "fill_item", "matrix", "residual", "line"]


# ---------------------------------------------------------------------------
# generation
# ---------------------------------------------------------------------------


def gen_fault(rng: random.Random) -> dict:
    kind = rng.choices(["exc", "nonfinite", "region", "base", "region_nan"], weights=[66, 15, 9, 5, 5])[0]
    kspec = rng.choice(
        [
            {"mode": "abs", "k": 1},
            {"mode": "abs", "k": 2},
            {"mode": "abs", "k": 3},
            {"mode": "last"},
            {"mode": "frac", "f": round(rng.random(), 3)},
            {"mode": "frac", "f": round(rng.random(), 3)},
            {"mode": "phase", "phase": rng.choice(["jacobian", "step"]), "nth": rng.randint(1, 3)},
        ]
    )
    if kind == "exc":
        site = rng.choice(SITES)
        f = {"kind": "exc", "kspec": kspec, "site": site, "exc": rng.choice(EXC_CHOICES)}
        if site != "line" and rng.random() < 0.12:
            f["swap_stdout"] = True
        if site == "line":
            f["n"] = rng.choice([1, 2, 5, 17, rng.randint(1, 400), rng.randint(1, 3000)])
        elif site != "objective":
            f["j"] = rng.choice([1, 1, 2, 3])
        return f
    if kind == "nonfinite":
        return {
            "kind": "nonfinite",
            "kspec": kspec,
            "j": rng.choice([1, 1, 2]),
            "value": rng.choice(["nan", "inf", "-inf"]),
            "where": rng.choice(["all", "one"]),
            "flat": rng.randint(0, 50),
        }
    if kind in ("region", "region_nan"):
        return {
            "kind": kind,
            "between": [rng.randint(0, 8), rng.randint(0, 8)],
            "which": rng.randint(0, 5),
            "exc": rng.choice(EXC_CHOICES),
        }
    return {
        "kind": "base",
        "kspec": kspec,
        "site": rng.choice(["objective", "group", "matrix"]),
        "j": 1,
        "exc": rng.choice(["KeyboardInterrupt", "SimCrash"]),
    }


def generate(rng: random.Random, tier: str) -> dict:
    small = tier == "quick" or rng.random() < 0.5
    nan_tolerant = rng.random() < 0.12
    if nan_tolerant:
        # models whose builtin megacomplexes do not reject non-finite parameters: the optimiser can wander to NaN
        spec = workloads.gen_spec_oscillation_only(rng, for_fit=True)
        if rng.random() < 0.5:
            spec["scheme"]["optimization_method"] = "Levenberg-Marquardt"
    else:
        spec = workloads.gen_spec(rng, for_fit=True, small=small)
    use_driver = rng.random() < 0.25
    driver = None
    if use_driver:
        n = rng.randint(2, 10)
        steps = [[0.0]]
        for _ in range(n - 1):
            mode = rng.random()
            if mode < 0.2:
                steps.append(steps[-1])  # plateau: same point again
            elif mode < 0.3:
                steps.append([0.0])
            else:
                steps.append([round(rng.uniform(-0.2, 0.2), 4) for _ in range(4)])
        driver = {"steps": steps, "final": rng.randrange(n)}
    mode = "all" if rng.random() < (0.5 if (tier == "thorough" or nan_tolerant) else 0.15) else "sample"
    if mode == "all":
        site = rng.choice(SITES[:-1])
        if rng.random() < (0.8 if nan_tolerant else 0.35):
            # a non-finite matrix instead of an exception, at every evaluation k
            faults = [
                {
                    "kind": "nonfinite",
                    "kspec": {"mode": "all"},
                    "j": 1,
                    "value": rng.choice(["nan", "inf"]),
                    "where": rng.choice(["all", "one"]),
                    "flat": rng.randint(0, 50),
                }
            ]
        else:
            faults = [
                {
                    "kind": "exc",
                    "kspec": {"mode": "all"},
                    "site": site,
                    "j": 1,
                    "exc": rng.choice(EXC_CHOICES),
                }
            ]
    else:
        faults = [gen_fault(rng) for _ in range(rng.randint(2, 6))]
    invalid = []
    if rng.random() < 0.5:
        invalid = rng.sample(
            ["missing_dataset", "no_parameters", "bad_method", "bad_residual", "bad_residual_g2"],
            k=rng.choice([1, 1, 2]),
        )
    return {
        "engine": NAME,
        "spec": spec,
        "verbose": rng.random() < 0.4,
        "raise_exception": rng.random() < 0.3,
        "driver": driver,
        "faults": faults,
        "invalid": invalid,
        "invalid_at": rng.choice(["before", "after"]),
        # what the caller's sys.stdout is: a plain stream, or a glotaran TeeContext the caller has entered itself
        "caller_stdout": rng.choice(["plain", "plain", "tee", "tee", "writeonly", "flush_raises"]),
    }


# ---------------------------------------------------------------------------
# helpers
# ---------------------------------------------------------------------------


def result_digest(result) -> str:
    parts = {
        "success": bool(result.success),
        "nfev": int(result.number_of_function_evaluations),
        "term": str(result.termination_reason),
        "free": list(result.free_parameter_labels),
        "opt": S.snapshot_parameters(result.optimized_parameters),
        "cost": None if result.cost is None else float(result.cost).hex(),
        "chi2": None if result.chi_square is None else float(result.chi_square).hex(),
        "jac": None if result.jacobian is None else core.arr_digest(np.asarray(result.jacobian)),
        "cov": None
        if result.covariance_matrix is None
        else core.arr_digest(np.asarray(result.covariance_matrix)),
        # column 0 is the iteration number parsed from scipy's verbose output: it depends on `verbose`, not on the fit
        "hist": core.arr_digest(np.asarray(result.parameter_history.parameters, dtype=float)[:, 1:]),
        "data": {
            label: {
                str(v): core.arr_digest(ds[v].values)
                for v in sorted(map(str, ds.data_vars))
                # SVD of the *input* data is added to the caller's dataset by add_svd=True (documented) and is
                # then copied into later results; it says nothing about the fit, so it is not part of the digest
                if not (str(v).startswith("data_") and "singular" in str(v))
            }
            for label, ds in sorted(result.data.items())
        },
    }
    return core.digest(parts)


def classify_phases(xs: list) -> list[str]:
    phases = []
    base = None
    for i, x in enumerate(xs):
        if i == 0:
            phases.append("first")
            base = x
            continue
        d = x - base
        nz = np.flatnonzero(d)
        if nz.size == 1 and abs(d[nz[0]]) <= 1e-6 * max(1.0, abs(base[nz[0]])):
            phases.append("jacobian")
        elif nz.size == 0:
            phases.append("repeat")
        else:
            phases.append("step")
            base = x
    return phases


def resolve_k(kspec: dict, n: int, phases: list[str]) -> list[int]:
    mode = kspec["mode"]
    if n <= 0:
        return []
    if mode == "abs":
        return [min(kspec["k"], n)]
    if mode == "last":
        return [n]
    if mode == "frac":
        return [1 + int(kspec["f"] * n) if kspec["f"] < 1 else n]
    if mode == "phase":
        idx = [i + 1 for i, p in enumerate(phases) if p == kspec["phase"]]
        if not idx:
            return [max(1, n // 2)]
        return [idx[min(kspec["nth"], len(idx)) - 1]]
    if mode == "all":
        return list(range(1, n + 1))
    raise core.HarnessError(f"bad kspec {kspec}")


def values_from_x(params_template, free_labels, x) -> dict:
    """Real-space values of all non-expression parameters for optimiser vector x."""
    vals = {p.label: p.value for p in params_template.all() if p.expression is None}
    for label, xi in zip(free_labels, x):
        p = params_template.get(label)
        vals[label] = float(np.exp(xi)) if p.non_negative else float(xi)
    return vals


def close_values(a: dict, b: dict, rtol=1e-9) -> bool:
    for k, va in a.items():
        vb = b.get(k)
        if vb is None:
            return False
        if va == vb or (va != va and vb != vb):
            continue
        if not abs(va - vb) <= rtol * max(abs(va), abs(vb), 1e-300):
            return False
    return True


COMPARE_VARS = ("residual", "clp", "matrix", "fitted_data", "weighted_residual", "global_matrix")


def compare_datasets(rec, result_data, ref_data, tag: str) -> list[str]:
    problems = []
    for label, ref in ref_data.items():
        got = result_data.get(label)
        if got is None:
            problems.append(f"{tag}: dataset {label} missing in result")
            continue
        for var in COMPARE_VARS:
            if var in ref:
                if var not in got:
                    problems.append(f"{tag}: {label}.{var} missing")
                    continue
                a, b = got[var].values, ref[var].values
                err = S.rel_err(a, b)
                if err == 0.0 and np.array_equal(a, b, equal_nan=True):
                    rec.probe("ref_bit_equal")
                else:
                    rec.probe("ref_not_bit_equal")
                if not err <= 1e-10:
                    problems.append(f"{tag}: {label}.{var} differs from reference rel={err:.3e}")
    return problems


DOCUMENTED_INVALID = {
    "missing_dataset": "MissingDatasetsError",
    "no_parameters": "ParameterNotInitializedError",
    "bad_method": "UnsupportedMethodError",
    "bad_residual": "UnsupportedResidualFunctionError",
    "bad_residual_g2": "UnsupportedResidualFunctionError",
}


# ---------------------------------------------------------------------------
# execution
# ---------------------------------------------------------------------------


class Run:
    def __init__(self, plan: dict):
        self.plan = plan
        self.rec = core.Recorder(PROP)

    # one optimize() call under the seams ----------------------------------
    def call_optimize(self, scheme, verbose, raise_exception, fault):
        from glotaran.optimization.optimize import optimize

        self.seams.reset(fault)
        old_stdout = sys.stdout
        sink = S.StdoutSentinel()
        if self.plan.get("caller_stdout") == "tee":
            from glotaran.utils.tee import TeeContext

            sys.stdout = sink
            sentinel = TeeContext()  # remembers `sink` as the stream below it
            sentinel.getvalue = sentinel.read
        elif self.plan.get("caller_stdout") == "writeonly":
            sentinel = S.WriteOnlyStdout()
        elif self.plan.get("caller_stdout") == "flush_raises":
            sentinel = S.FlushRaisesStdout()
        else:
            sentinel = sink
        sys.stdout = sentinel
        result = exc = None
        with warnings.catch_warnings(record=True) as caught:
            warnings.simplefilter("always")
            try:
                result = optimize(scheme, verbose=verbose, raise_exception=raise_exception)
            except BaseException as e:  # noqa: BLE001 - the oracle wants everything
                if isinstance(e, (core.HarnessError, core.RunTimeout)):
                    sys.stdout = old_stdout
                    raise
                exc = e
            finally:
                sys.settrace(None)
                stdout_ok = sys.stdout is sentinel
                sys.stdout = old_stdout
        return result, exc, stdout_ok, [str(w.message)[:80] for w in caught], sentinel.getvalue()

    def check_scheme(self, scheme, snap, tag):
        diffs = S.diff_snapshot(snap, S.snapshot_scheme(scheme))
        if diffs:
            self.rec.violate("C15/scheme-touched", "inputs", f"{tag}: {diffs[:4]}")

    def execute(self) -> dict:
        rec, plan = self.rec, self.plan
        spec = plan["spec"]
        drv = plan.get("driver")
        driver = (lambda: S.ScriptedDriver(drv["steps"], drv["final"])) if drv else None
        try:
            scheme = workloads.build_scheme(spec)
        except Exception as e:  # noqa: BLE001
            rec.discarded = f"build: {type(e).__name__}: {str(e)[:80]}"
            return rec.outcome("discard", False)
        snap = S.snapshot_scheme(scheme)
        template = workloads.build_parameters(spec)
        free_labels, _, _, _ = template.get_label_value_and_bounds_arrays(exclude_non_vary=True)
        initial_values = {p.label: p.value for p in template.all() if p.expression is None}

        self.seams = S.EvalSeams(rec)
        with self.seams:
            # -------- baseline ------------------------------------------
            self.seams.driver = driver() if driver else None
            base, exc, ok, _, _ = self.call_optimize(scheme, False, True, None)
            if not ok:
                rec.violate(
                    "C15/stdout-not-restored",
                    "stdout",
                    f"fault-free optimize() left sys.stdout replaced (caller's stdout kind: {plan.get('caller_stdout', 'plain')}, "
                    f"outcome: {type(exc).__name__ if exc else 'Result'}: {exc})",
                )
                return rec.outcome("stdout", True)
            if exc is not None and plan.get("caller_stdout", "plain") != "plain":
                # does the same scheme optimise with an ordinary stream?  Then the failure is about the stream.
                kind = plan["caller_stdout"]
                plan["caller_stdout"] = "plain"
                try:
                    self.seams.driver = driver() if driver else None
                    _, exc2, _, _, _ = self.call_optimize(workloads.build_scheme(spec), False, True, None)
                finally:
                    plan["caller_stdout"] = kind
                if exc2 is None:
                    rec.violate(
                        "C15/stdout-dependent-failure",
                        "stdout",
                        f"fault-free optimize() raises {type(exc).__name__}: {exc} only because the caller's sys.stdout is a {kind} object",
                    )
                    return rec.outcome("stdout", True)
            if exc is not None:
                rec.discarded = f"baseline: {type(exc).__name__}: {str(exc)[:80]}"
                return rec.outcome("discard", False)
            n = self.seams.eval_no
            xs = list(self.seams.xs)
            phases = classify_phases(xs)
            base_digest = result_digest(base)
            rec.event(op="baseline", n=n, digest=base_digest, phases="".join(p[0] for p in phases))
            rec.logical["evaluations"] += n
            if not ok:
                rec.violate("C15/stdout-not-restored", "stdout", "baseline (no fault)")
            self.check_scheme(scheme, snap, "baseline")

            if plan.get("invalid") and plan.get("invalid_at") == "before":
                self.run_invalid(spec)

            # -------- faults --------------------------------------------
            dkeys = set()
            for fault in plan["faults"]:
                for concrete in self.concretise(fault, n, phases, xs, template, free_labels):
                    self.seams.driver = driver() if driver else None
                    self.one_fault(
                        scheme, snap, concrete, base_digest, phases, template, free_labels, initial_values, dkeys
                    )
                    if rec.violations:
                        break
                if rec.violations:
                    break

            if plan.get("invalid") and plan.get("invalid_at") == "after" and not rec.violations:
                self.run_invalid(spec)

            # -------- recovery ---------------------------------------------
            if not rec.violations:
                self.seams.driver = driver() if driver else None
                res, exc, ok, _, _ = self.call_optimize(scheme, False, True, None)
                rec.logical["evaluations"] += self.seams.eval_no
                if exc is not None:
                    rec.violate(
                        "C15/recovery-raises",
                        "recovery",
                        f"fault-free optimize after faults raised {type(exc).__name__}: {exc}",
                    )
                else:
                    d = result_digest(res)
                    rec.event(op="recovery", digest=d)
                    if d != base_digest:
                        rec.violate(
                            "C15/recovery-differs",
                            "recovery",
                            "fault-free optimize after the faulty ones differs from the baseline result",
                        )
                    if rec.faults:
                        rec.oracle_after_fault += 1
                if not ok:
                    rec.violate("C15/stdout-not-restored", "stdout", "recovery")
                self.check_scheme(scheme, snap, "recovery")

            # -------- out-of-scope probe (recorded, never judged): a fault in create_result's own re-evaluation,
            # i.e. after the optimiser has returned (DESIGN 4.15 scope decision)
            if not rec.violations:
                self.seams.driver = driver() if driver else None
                res, exc, ok, _, _ = self.call_optimize(scheme, False, False, {"kind": "post_ls", "exc": "InjectedFault"})
                if self.seams.fired:
                    rec.stat("out_of_scope_create_result_fault_" + ("escapes" if exc is not None else "contained"))
                    if not ok:
                        rec.violate("C15/stdout-not-restored", "stdout", "fault inside create_result (after the optimiser returned)")

        rec.logical["ops"] = len(rec.events)
        rec.stats["distinct_fault_cells"] = len(dkeys)
        rec.cells = sorted(dkeys)
        out = rec.outcome(core.digest([spec["features"], sorted(dkeys)]), bool(rec.faults) and rec.oracle_after_fault > 0)
        out["cells"] = sorted(dkeys)
        return out

    # ------------------------------------------------------------------
    def concretise(self, fault, n, phases, xs, template, free_labels):
        if fault["kind"] in ("region", "region_nan"):
            # threshold between two values the fault-free trajectory visits
            if not free_labels or n < 2:
                return []
            a, b = (min(i, n - 1) for i in fault["between"])
            pi = fault["which"] % len(free_labels)
            label = free_labels[pi]
            va = values_from_x(template, free_labels, xs[a])[label]
            vb = values_from_x(template, free_labels, xs[b])[label]
            if va == vb:
                # fall back: any later evaluation that differs from the first
                for c in range(n):
                    vb = values_from_x(template, free_labels, xs[c])[label]
                    if vb != va:
                        break
                else:
                    return []
            theta = (va + vb) / 2.0
            v0 = values_from_x(template, free_labels, xs[0])[label]
            direction = ">" if v0 < theta else "<"  # the initial point is never inside the region
            if v0 == theta:
                return []
            return [
                {"kind": fault["kind"], "param": label, "theta": theta, "dir": direction, "exc": fault["exc"]}
            ]
        out = []
        for k in resolve_k(fault["kspec"], n, phases):
            c = {key: v for key, v in fault.items() if key != "kspec"}
            c["k"] = k
            out.append(c)
        return out

    def one_fault(self, scheme, snap, fault, base_digest, phases, template, free_labels, initial_values, dkeys):
        from glotaran.optimization.optimizer import InitialParameterError
        from glotaran.project import Result

        rec, plan = self.rec, self.plan
        verbose, raise_exc = plan["verbose"], plan["raise_exception"]
        result, exc, stdout_ok, warns, _ = self.call_optimize(scheme, verbose, raise_exc, fault)
        sm = self.seams
        fired = list(sm.fired)
        escaped = sm.escaped
        rec.logical["evaluations"] += sm.eval_no
        k = fired[0]["eval"] if fired else None
        phase = phases[k - 1] if (k and k <= len(phases)) else ("beyond" if k else "none")
        if k and k == len(phases):
            rec.probe("fault_in_last_evaluation")
        outcome = (
            "result_ok"
            if isinstance(result, Result) and result.success
            else "result_failed"
            if isinstance(result, Result)
            else type(exc).__name__
        )
        rec.event(
            op="fault",
            fault=fault,
            fired=fired,
            outcome=outcome,
            escaped=None if escaped is None else f"{type(escaped).__name__}: {escaped}",
            digest=result_digest(result) if isinstance(result, Result) else None,
            stdout_ok=stdout_ok,
        )
        tag = f"fault={core.canon(fault)} fired={core.canon(fired)} verbose={verbose} raise_exception={raise_exc}"

        if not stdout_ok:
            rec.violate("C15/stdout-not-restored", "stdout", f"sys.stdout not restored after {outcome}; {tag}")
        self.check_scheme(scheme, snap, tag)

        if not fired:
            rec.stat("fault_not_fired")
            # a fault that never fired is a fault-free run: must equal the baseline
            if exc is not None:
                rec.violate("C15/unfaulted-run-raises", "recovery", f"{type(exc).__name__}: {exc}; {tag}")
            elif result_digest(result) != base_digest:
                rec.violate("C15/recovery-differs", "recovery", f"unfired fault run differs from baseline; {tag}")
            return

        rec.fault(f"{fault['kind']}@{fault.get('site', fault['kind'])}")
        rec.probe(f"phase:{phase}")
        if k == 1:
            rec.probe("fault_in_first_evaluation")
        if verbose:
            rec.probe("verbose_tee_active")
        dkeys.add(
            f"{plan['spec']['scheme']['optimization_method']}|{'drv' if plan.get('driver') else 'scipy'}|{phase}|{fault['kind']}|"
            f"{fault.get('site', '-')}|{fault.get('exc', fault.get('value'))}|v{int(verbose)}|r{int(raise_exc)}"
        )
        rec.oracle_after_fault += 1

        if fault["kind"] == "base":
            if exc is None or not isinstance(exc, BaseException) or exc is not escaped:
                rec.violate(
                    "C15/base-exception-swallowed",
                    "propagation",
                    f"{fault['exc']} did not propagate unchanged (got {outcome}); {tag}",
                )
            return

        if fault["kind"] in ("nonfinite", "region_nan"):
            if exc is not None and not raise_exc and not isinstance(exc, InitialParameterError):
                rec.violate(
                    "C15/not-contained",
                    "containment",
                    f"non-finite matrix: {type(exc).__name__}: {exc} escaped optimize(raise_exception=False); {tag}",
                )
            if isinstance(result, Result) and not result.success:
                self.check_provenance(result, template, free_labels, initial_values, tag)
            return

        # exception faults (exc / region)
        if (
            fault["kind"] == "exc"
            and fault.get("site") in ("objective", "group", "fill_item", "matrix", "residual")
            and sm.injected is not None
            and escaped is not sm.injected
        ):
            # the model (a megacomplex, the residual solver, item filling) raised `injected`; what left the objective
            # function is something else: the error was rewritten inside the evaluation
            rec.violate(
                "C15/exception-changed",
                "propagation",
                f"the model raised {type(sm.injected).__name__}({sm.injected}) but {type(escaped).__name__}({escaped}) left the "
                f"evaluation; {tag}",
            )
            return
        if raise_exc:
            if exc is None:
                rec.violate("C15/not-propagated", "propagation", f"raise_exception=True but got {outcome}; {tag}")
            elif exc is not escaped:
                rec.violate(
                    "C15/exception-changed",
                    "propagation",
                    f"raise_exception=True: {type(exc).__name__}({exc}) is not the original "
                    f"{type(escaped).__name__}({escaped}); {tag}",
                )
            return

        first_failed = k == 1 and not any(sm.completed)
        if first_failed:
            if not isinstance(exc, InitialParameterError):
                rec.violate(
                    "C15/initial-not-reported",
                    "outcome",
                    f"fault at the optimiser's first evaluation: expected InitialParameterError, got {outcome}; {tag}",
                )
            return
        if exc is not None:
            rec.violate(
                "C15/not-contained",
                "containment",
                f"{type(exc).__name__}: {exc} escaped optimize(raise_exception=False) at evaluation {k}; {tag}",
            )
            return
        if result.success:
            rec.violate("C15/failed-reported-success", "outcome", f"Result.success is True after a fault; {tag}")
            return
        if str(escaped) not in str(result.termination_reason):
            rec.violate(
                "C15/termination-reason",
                "outcome",
                f"termination_reason {result.termination_reason!r} does not carry {str(escaped)!r}; {tag}",
            )
        if not any(str(escaped)[:40] in w for w in warns) and not any("Optimization failed" in w for w in warns):
            rec.probe("no_warning_emitted")
        self.check_provenance(result, template, free_labels, initial_values, tag)

    def check_provenance(self, result, template, free_labels, initial_values, tag):
        rec, sm = self.rec, self.seams
        got = {p.label: p.value for p in result.optimized_parameters.all() if p.expression is None}
        candidates = [("initial", initial_values)]
        for i, (x, done, finite) in enumerate(zip(sm.xs, sm.completed, sm.finite)):
            # an evaluation that returned non-finite numbers is the non-exception form of a failed evaluation
            if done and finite:
                candidates.append((f"eval{i + 1}", values_from_x(template, free_labels, x)))
        match = [name for name, vals in candidates if close_values(vals, got)]
        if not match:
            rec.violate(
                "C15/provenance-parameters",
                "provenance",
                f"optimized_parameters {got} equal none of the {len(candidates)} parameter sets evaluated "
                f"without error (nor the initial set); {tag}",
            )
            return
        if match == ["initial"]:
            rec.probe("restored_initial_record")
        ref = S.Reference(self.plan["spec"])
        try:
            _, ref_data = ref.at_values(got)
        except Exception as e:  # noqa: BLE001
            rec.stat("reference_failed")
            rec.event(op="reference_failed", err=f"{type(e).__name__}: {e}")
            return
        problems = compare_datasets(rec, result.data, ref_data, "failed-result")
        if problems:
            rec.violate("C15/provenance-datasets", "provenance", f"{problems[:3]}; {tag}")

    # ------------------------------------------------------------------
    def run_invalid(self, spec):
        from glotaran.project import Scheme

        rec, plan = self.rec, self.plan
        defects = plan["invalid"]
        try:
            model = workloads.build_model(spec)
            params = workloads.build_parameters(spec)
            data = workloads.build_datasets(spec)
        except Exception as e:  # noqa: BLE001
            rec.stat("invalid_build_failed")
            return
        opts = dict(spec["scheme"])
        groups = list(model.dataset_groups)
        applied = []
        drop_parameters = False
        for d in defects:
            if d == "missing_dataset":
                data.pop(sorted(data)[-1])
            elif d == "no_parameters":
                drop_parameters = True
            elif d == "bad_method":
                opts["optimization_method"] = "SteepestDescent"
            elif d == "bad_residual":
                model.dataset_groups[groups[0]].residual_function = "median_projection"
            elif d == "bad_residual_g2":
                if len(groups) < 2:
                    continue
                model.dataset_groups[groups[-1]].residual_function = "median_projection"
            applied.append(d)
        if not applied:
            return
        try:
            scheme = Scheme(model=model, parameters=params, data=data, **opts)
            if drop_parameters:
                scheme.parameters = None  # a Scheme cannot be constructed without parameters, but the attribute can be unset
        except Exception as e:  # noqa: BLE001
            rec.stat("invalid_scheme_unbuildable")
            return
        snap = S.snapshot_scheme(scheme)
        before = self.seams.total_model_evaluations
        self.seams.driver = None
        mcount0 = self.seams.site_counts.get("matrix", 0)
        result, exc, stdout_ok, _, out = self.call_optimize(scheme, plan["verbose"], plan["raise_exception"], None)
        evaluated = self.seams.total_model_evaluations - before
        expected = sorted({DOCUMENTED_INVALID[d] for d in applied})
        rec.event(op="invalid", defects=applied, outcome=type(exc).__name__ if exc else "returned", evaluated=evaluated)
        rec.probe("invalid_scheme_checked")
        tag = f"defects={applied}"
        if exc is None:
            rec.violate("C15/invalid-accepted", "validation", f"invalid scheme was optimised; {tag}")
        elif type(exc).__name__ not in expected:
            rec.violate(
                "C15/invalid-wrong-error",
                "validation",
                f"expected one of {expected}, got {type(exc).__name__}: {exc}; {tag}",
            )
        if evaluated:
            rec.violate("C15/invalid-evaluated", "validation", f"{evaluated} model evaluations before rejection; {tag}")
        if not stdout_ok:
            rec.violate("C15/stdout-not-restored", "stdout", f"invalid scheme; {tag}")
        diffs = S.diff_snapshot(snap, S.snapshot_scheme(scheme))
        if diffs:
            rec.violate("C15/scheme-touched", "inputs", f"invalid scheme: {diffs[:3]}; {tag}")


def execute(plan: dict) -> dict:
    return Run(plan).execute()


# ---------------------------------------------------------------------------
# shrinking
# ---------------------------------------------------------------------------


def shrink_candidates(plan: dict, violation: dict):
    """Yield simpler plans (most aggressive first)."""
    import copy

    faults = plan["faults"]
    if faults:
        p = copy.deepcopy(plan)
        p["faults"] = []
        yield p
    # 1. single fault
    if len(faults) > 1:
        for f in faults:
            p = copy.deepcopy(plan)
            p["faults"] = [copy.deepcopy(f)]
            yield p
    # 2. 'all' -> each k seen in the message is not known here; try abs k small values
    for i, f in enumerate(faults):
        ks = f.get("kspec")
        if ks and ks["mode"] != "abs":
            for k in (1, 2, 3, 4, 5, 6, 8, 10, 12, 16, 20, 30, 40):
                p = copy.deepcopy(plan)
                p["faults"][i]["kspec"] = {"mode": "abs", "k": k}
                yield p
        if f.get("site") == "line" and f.get("n", 1) > 1:
            for n in (1, f["n"] // 2):
                p = copy.deepcopy(plan)
                p["faults"][i]["n"] = n
                yield p
        if f.get("exc") not in (None, "InjectedFault", "KeyboardInterrupt", "SimCrash"):
            p = copy.deepcopy(plan)
            p["faults"][i]["exc"] = "InjectedFault"
            yield p
    if plan.get("invalid"):
        p = copy.deepcopy(plan)
        p["invalid"] = []
        yield p
        if len(plan["invalid"]) > 1:
            for d in plan["invalid"]:
                p = copy.deepcopy(plan)
                p["invalid"] = [d]
                yield p
    if plan.get("invalid") and plan["faults"] and violation["key"].startswith("C15/invalid"):
        p = copy.deepcopy(plan)
        p["faults"] = []
        yield p
    if plan.get("driver"):
        p = copy.deepcopy(plan)
        p["driver"] = None
        yield p
    if plan.get("verbose"):
        p = copy.deepcopy(plan)
        p["verbose"] = False
        yield p
    # workload simplifications
    spec = plan["spec"]
    for key in ("clp_penalties", "clp_relations", "clp_constraints", "weights"):
        if key in spec["model"]:
            p = copy.deepcopy(plan)
            del p["spec"]["model"][key]
            yield p
    if spec["scheme"].get("add_svd"):
        p = copy.deepcopy(plan)
        p["spec"]["scheme"]["add_svd"] = False
        yield p
    if len(spec["data"]) > 1:
        last = sorted(spec["data"])[-1]
        p = copy.deepcopy(plan)
        del p["spec"]["data"][last]
        del p["spec"]["model"]["dataset"][last]
        yield p
