"""C10-B — numba ``prange`` kernels are race free under every schedule.

numba's own scheduler cannot be controlled, so the kernels are lifted into the
simulator: at check time every numba dispatcher defined in a glotaran module is
found, its Python source (``dispatcher.py_func``) and ``parallel`` flag are read from
the *current working tree*, and an AST transformer produces a generator twin that
yields after every statement, splits ``a[i] += e`` into read / write, and turns each
outermost ``prange`` of a ``parallel=True`` function into a fork-join request.  A
seeded scheduler interleaves the iterations; arrays are tracked per element so
that write/write and read/write conflicts between sibling iterations are found
exactly, whatever the schedule.  See DESIGN.md §4.10.B.
"""

from __future__ import annotations

import ast
import inspect
import random
import sys
import textwrap
import warnings

import numpy as np

from sim import core

PROP = "C10"
NAME = "prangesim"
RULE = (
    "prangesim: one run = one seeded schedule policy + one workload (direct kernel call with seeded arrays, or a real "
    "OptimizationGroup.calculate on a generated decay scheme with the twins installed); distinct = digest of the scheduler's "
    "choice sequence; non-trivial = at least one fork-join region with >= 2 live tasks was interleaved (a context switch between "
    "sibling iterations actually happened)"
)
REAL_VS_STUB = {
    "real": "megacomplex Python code calling the kernels (DecayMegacomplex.calculate_matrix, irf.parameter, "
    "decay_matrix_implementation_*), the kernels' own source statements, erf/erfcx from scipy",
    "stub": "numba's compiled parallel code and threading layer are replaced by generator twins of the kernel source stepped by "
    "the seeded scheduler (twin output is cross-checked against the compiled kernel)",
}

POLICIES = ["uniform", "burst", "reverse", "lockstep", "sequential", "uniform", "burst"]


# ---------------------------------------------------------------------------
# kernel discovery and twins
# ---------------------------------------------------------------------------


def find_dispatchers():
    from numba.core.dispatcher import Dispatcher

    import glotaran  # noqa: F401
    import glotaran.builtin.megacomplexes.coherent_artifact.coherent_artifact_megacomplex  # noqa: F401
    import glotaran.builtin.megacomplexes.damped_oscillation.damped_oscillation_megacomplex  # noqa: F401
    import glotaran.builtin.megacomplexes.decay.decay_matrix_gaussian_irf  # noqa: F401
    import glotaran.builtin.megacomplexes.decay.util  # noqa: F401

    found = {}
    for mname, mod in sorted(sys.modules.items()):
        if not mname.startswith("glotaran.") or mod is None or ".test" in mname:
            continue
        for attr, val in sorted(vars(mod).items()):
            if isinstance(val, Dispatcher):
                home = val.py_func.__module__
                key = f"{home}.{val.py_func.__name__}"
                found.setdefault(key, {"dispatcher": val, "sites": []})["sites"].append((mod, attr))
    return found


class Unsupported(Exception):
    pass


def _is_prange(node) -> bool:
    if not isinstance(node, ast.Call):
        return False
    f = node.func
    return (isinstance(f, ast.Attribute) and f.attr == "prange") or (isinstance(f, ast.Name) and f.id == "prange")


class TwinBuilder(ast.NodeTransformer):
    """Statement-level rewrite of one kernel into a generator."""

    def __init__(self, parallel: bool, kernel_names: set):
        self.parallel = parallel
        self.kernel_names = kernel_names
        self.in_parfor = 0
        self.counter = 0
        self.n_parfor = 0

    def _yield(self, tag="s"):
        return ast.Expr(ast.Yield(ast.Constant(tag)))

    def block(self, stmts):
        out = []
        for st in stmts:
            out.extend(self.stmt(st))
        return out or [ast.Pass()]

    def stmt(self, st):
        if isinstance(st, ast.For):
            return self.for_(st)
        if isinstance(st, ast.If):
            st.body = self.block(st.body)
            st.orelse = self.block(st.orelse) if st.orelse else []
            return [st]
        if isinstance(st, ast.While):
            st.body = self.block(st.body)
            return [st]
        if isinstance(st, ast.AugAssign) and isinstance(st.target, ast.Subscript):
            self.counter += 1
            tmp = f"__rmw{self.counter}"
            load = ast.Assign(
                [ast.Name(tmp, ast.Store())],
                ast.Subscript(st.target.value, st.target.slice, ast.Load()),
            )
            store = ast.Assign(
                [ast.Subscript(st.target.value, st.target.slice, ast.Store())],
                ast.BinOp(ast.Name(tmp, ast.Load()), st.op, st.value),
            )
            return [load, self._yield("rmw"), store, self._yield()]
        if isinstance(st, ast.Expr) and isinstance(st.value, ast.Call):
            f = st.value.func
            if isinstance(f, ast.Name) and f.id in self.kernel_names:
                call = ast.Call(ast.Name(f"__twin_{f.id}", ast.Load()), st.value.args, st.value.keywords)
                return [ast.Expr(ast.YieldFrom(call))]
        if isinstance(st, (ast.FunctionDef, ast.ClassDef, ast.With, ast.Try)):
            raise Unsupported(f"statement {type(st).__name__} in kernel")
        return [st, self._yield()]

    def for_(self, st):
        if _is_prange(st.iter) and self.parallel and self.in_parfor == 0:
            if not isinstance(st.target, ast.Name) or len(st.iter.args) != 1:
                raise Unsupported("prange with non-trivial target/arguments")
            # scalar reductions into outer variables cannot be modelled by closure privatisation
            assigned = {n.id for n in ast.walk(ast.Module(st.body, [])) if isinstance(n, ast.Name) and isinstance(n.ctx, ast.Store)}
            for n in ast.walk(ast.Module(st.body, [])):
                if isinstance(n, ast.AugAssign) and isinstance(n.target, ast.Name):
                    plain = any(
                        isinstance(a, ast.Assign) and any(isinstance(t, ast.Name) and t.id == n.target.id for t in a.targets)
                        for a in ast.walk(ast.Module(st.body, []))
                    )
                    if not plain:
                        raise Unsupported(f"scalar reduction into {n.target.id!r} inside prange")
            del assigned
            self.counter += 1
            self.n_parfor += 1
            name = f"__body{self.counter}"
            self.in_parfor += 1
            body = self.block(st.body)
            self.in_parfor -= 1
            fn = ast.FunctionDef(
                name=name,
                args=ast.arguments(posonlyargs=[], args=[ast.arg(st.target.id)], kwonlyargs=[], kw_defaults=[], defaults=[]),
                body=body + [self._yield("end")],
                decorator_list=[],
                type_params=[],
            )
            req = ast.Expr(
                ast.Yield(
                    ast.Tuple(
                        [ast.Constant("parfor"), st.iter.args[0], ast.Name(name, ast.Load())],
                        ast.Load(),
                    )
                )
            )
            return [fn, req]
        if _is_prange(st.iter):
            st.iter = ast.Call(ast.Name("range", ast.Load()), st.iter.args, [])
        st.body = self.block(st.body)
        return [st]


def build_twin(key: str, dispatcher, kernel_names: set):
    py = dispatcher.py_func
    src = textwrap.dedent(inspect.getsource(py))
    tree = ast.parse(src)
    fn = tree.body[0]
    assert isinstance(fn, ast.FunctionDef)
    parallel = bool(dispatcher.targetoptions.get("parallel", False))
    fn.decorator_list = []
    fn.returns = None
    for a in fn.args.args:
        a.annotation = None
    if fn.body and isinstance(fn.body[0], ast.Expr) and isinstance(getattr(fn.body[0], "value", None), ast.Constant):
        fn.body = fn.body[1:]
    tb = TwinBuilder(parallel, kernel_names)
    fn.body = tb.block(fn.body) + [ast.Expr(ast.Yield(ast.Constant("ret")))]
    fn.name = f"__twin_{py.__name__}"
    ast.fix_missing_locations(tree)
    code = compile(tree, f"<twin of {key}>", "exec")
    return code, fn.name, parallel, tb.n_parfor


# ---------------------------------------------------------------------------
# element-level access tracking
# ---------------------------------------------------------------------------


class Ctx:
    current = None  # the running Task
    enabled = False


class Tracked(np.ndarray):
    """ndarray that knows which elements of its root buffer it views."""

    _idx = None

    def __array_finalize__(self, obj):
        self._idx = None

    @staticmethod
    def wrap(a: np.ndarray, root_id: int):
        t = np.asarray(a).view(Tracked)
        t._idx = (np.arange(t.size, dtype=np.int64).reshape(t.shape) + (root_id << 32))
        return t

    def _rec(self, idx, write):
        task = Ctx.current
        if task is None or idx is None or not Ctx.enabled:
            return
        tgt = task.writes if write else task.reads
        if isinstance(idx, np.ndarray):
            tgt.update(idx.ravel().tolist())
        else:
            tgt.add(int(idx))

    def __getitem__(self, key):
        res = super().__getitem__(key)
        idx = self._idx[key] if self._idx is not None else None
        if isinstance(res, Tracked):
            res._idx = idx  # a view: reading happens when it is used
            return res
        self._rec(idx, False)
        return res

    def __setitem__(self, key, value):
        if self._idx is not None:
            self._rec(self._idx[key], True)
        if isinstance(value, Tracked):
            value._rec(value._idx, False)
            value = value.view(np.ndarray)
        super().__setitem__(key, value)

    def __array_ufunc__(self, ufunc, method, *inputs, out=None, **kwargs):
        plain = []
        for x in inputs:
            if isinstance(x, Tracked):
                x._rec(x._idx, False)
                plain.append(x.view(np.ndarray))
            else:
                plain.append(x)
        if out is not None:
            outs = []
            for o in out:
                if isinstance(o, Tracked):
                    o._rec(o._idx, True)
                    outs.append(o.view(np.ndarray))
                else:
                    outs.append(o)
            kwargs["out"] = tuple(outs)
        res = getattr(ufunc, method)(*plain, **kwargs)
        if out is not None:
            return out[0] if len(out) == 1 else out
        return res


# ---------------------------------------------------------------------------
# scheduler
# ---------------------------------------------------------------------------


class Task:
    __slots__ = ("stack", "parent", "pending", "blocked", "reads", "writes", "label", "depth", "children")

    def __init__(self, gen, parent, label, depth):
        self.stack = [gen]
        self.parent = parent
        self.pending = 0
        self.blocked = False
        self.reads: set = set()
        self.writes: set = set()
        self.label = label
        self.depth = depth
        self.children: list = []


class Conflict(Exception):
    pass


class Scheduler:
    def __init__(self, rng: random.Random, policy: str, max_steps: int = 400_000):
        self.rng = rng
        self.policy = policy
        self.max_steps = max_steps
        self.steps = 0
        self.switches = 0
        self.regions = 0
        self.interleaved_regions = 0
        self.choices = []
        self.conflicts: list = []
        self._burst_left = 0
        self._last = None

    def choose(self, runnable):
        if len(runnable) == 1:
            return runnable[0]
        p = self.policy
        if p == "sequential":
            pick = runnable[0]
        elif p == "reverse":
            pick = runnable[-1]
        elif p == "uniform":
            pick = runnable[self.rng.randrange(len(runnable))]
        elif p == "burst":
            if self._last in runnable and self._burst_left > 0:
                self._burst_left -= 1
                pick = self._last
            else:
                pick = runnable[self.rng.randrange(len(runnable))]
                self._burst_left = self.rng.choice([1, 3, 10, 40, 200])
        else:  # lockstep: alternate between the first two runnable siblings
            pick = runnable[1] if self._last is runnable[0] else runnable[0]
        if self._last is not None and pick is not self._last and self._last in runnable:
            self.switches += 1
            self._region_switched = True
        self._last = pick
        self.choices.append(runnable.index(pick))
        return pick

    def run(self, gen, kernel_name):
        root = Task(gen, None, kernel_name, 0)
        live = [root]
        self._region_switched = False
        while live:
            runnable = [t for t in live if not t.blocked]
            if not runnable:
                raise core.HarnessError("scheduler deadlock")
            task = self.choose(runnable)
            Ctx.current = task
            self.steps += 1
            if self.steps > self.max_steps:
                raise core.HarnessError("scheduler step cap exceeded")
            try:
                msg = next(task.stack[-1])
            except StopIteration:
                task.stack.pop()
                if task.stack:
                    continue
                live.remove(task)
                if task.parent is not None:
                    task.parent.pending -= 1
                    if task.parent.pending == 0:
                        self.join(task.parent, kernel_name)
                continue
            finally:
                Ctx.current = None
            if isinstance(msg, tuple) and msg[0] == "parfor":
                _, n, body = msg
                n = int(n)
                if task.depth >= 1:
                    # nested parallel region: executed sequentially by the calling thread (numba semantics)
                    for i in reversed(range(n)):
                        task.stack.append(body(i))
                    continue
                self.regions += 1
                if n == 0:
                    continue
                task.blocked = True
                task.pending = n
                task.children = [Task(body(i), task, f"{kernel_name}[{i}]", task.depth + 1) for i in range(n)]
                live.extend(task.children)
                self._region_switched = False
        return root

    def join(self, parent, kernel_name):
        parent.blocked = False
        kids = parent.children
        if self._region_switched:
            self.interleaved_regions += 1
        for i in range(len(kids)):
            for j in range(i + 1, len(kids)):
                a, b = kids[i], kids[j]
                ww = a.writes & b.writes
                rw = (a.writes & b.reads) | (b.writes & a.reads)
                if ww or rw:
                    el = sorted(ww or rw)[0]
                    self.conflicts.append(
                        {
                            "kernel": kernel_name,
                            "kind": "write/write" if ww else "read/write",
                            "iterations": [i, j],
                            "array": el >> 32,
                            "element": el & 0xFFFFFFFF,
                            "count": len(ww | rw),
                        }
                    )
                    parent.children = []
                    return
        # a parent's accesses include its children's (for enclosing regions)
        for k in kids:
            parent.reads |= k.reads
            parent.writes |= k.writes
        parent.children = []


# ---------------------------------------------------------------------------
# installation of twins
# ---------------------------------------------------------------------------


class Twins:
    """Builds twins for every dispatcher and installs them over the module attributes."""

    def __init__(self):
        self.found = find_dispatchers()
        self.kernel_names = {v["dispatcher"].py_func.__name__ for v in self.found.values()}
        self.twins = {}
        self.unsupported = {}
        self.info = {}
        for key, v in self.found.items():
            d = v["dispatcher"]
            try:
                code, name, parallel, n_parfor = build_twin(key, d, self.kernel_names)
            except Unsupported as e:
                self.unsupported[key] = str(e)
                continue
            self.info[key] = {"parallel": parallel, "parfor_regions": n_parfor}
            self.twins[key] = (code, name, d)
        # one shared namespace per home module so that twins can call each other
        self.funcs = {}
        for key, (code, name, d) in self.twins.items():
            g = d.py_func.__globals__
            ns = dict(g)
            self.funcs[key] = (ns, code, name)
        # resolve cross references
        for key, (ns, code, name) in self.funcs.items():
            exec(code, ns)  # noqa: S102
        for key, (ns, code, name) in self.funcs.items():
            for key2, (ns2, code2, name2) in self.funcs.items():
                ns[name2] = ns2[name2]
        self.active = None  # (scheduler factory)
        self._undo = []
        self.calls = []

    def twin_gen(self, key):
        ns, code, name = self.funcs[key]
        return ns[name]

    def entry(self, key):
        twins = self
        d = self.found[key]["dispatcher"]

        def call(*args):
            run = twins.active
            if run is None:
                return d(*args)
            return run.kernel_call(key, args)

        call.__name__ = d.py_func.__name__
        return call

    def install(self, run):
        self.active = run
        for key, v in self.found.items():
            if key not in self.funcs:
                continue
            e = self.entry(key)
            for mod, attr in v["sites"]:
                self._undo.append((mod, attr, getattr(mod, attr)))
                setattr(mod, attr, e)

    def uninstall(self):
        for mod, attr, old in reversed(self._undo):
            setattr(mod, attr, old)
        self._undo.clear()
        self.active = None


_TWINS = None


def twins() -> Twins:
    global _TWINS
    if _TWINS is None:
        _TWINS = Twins()
    return _TWINS


def warmup():
    twins()


# ---------------------------------------------------------------------------
# generation
# ---------------------------------------------------------------------------


def generate(rng: random.Random, tier: str) -> dict:
    mode = rng.choice(["direct", "direct", "megacomplex"])
    plan = {
        "engine": NAME,
        "mode": mode,
        "policy": rng.choice(POLICIES),
        "sched_seed": rng.randrange(2**31),
    }
    if mode == "direct":
        plan["kernel"] = rng.choice(["no_irf", "gaussian_irf", "gaussian_irf", "on_index", "coherent", "oscillation"])
        plan["n_rates"] = rng.randint(1, 4)
        plan["n_times"] = rng.randint(3, 12)
        plan["n_index"] = rng.randint(1, 6)
        plan["n_gauss"] = rng.randint(1, 3)
        plan["backsweep"] = rng.random() < 0.3
        plan["data_seed"] = rng.randrange(2**31)
    else:
        from sim import workloads

        spec = workloads.gen_spec(rng, for_fit=False, small=True)
        plan["spec"] = spec
    return plan


# ---------------------------------------------------------------------------
# execution
# ---------------------------------------------------------------------------

KERNEL_KEYS = {
    "no_irf": "glotaran.builtin.megacomplexes.decay.util.calculate_decay_matrix_no_irf",
    "gaussian_irf": "glotaran.builtin.megacomplexes.decay.decay_matrix_gaussian_irf.calculate_decay_matrix_gaussian_irf",
    "on_index": "glotaran.builtin.megacomplexes.decay.decay_matrix_gaussian_irf.calculate_decay_matrix_gaussian_irf_on_index",
    "coherent": "glotaran.builtin.megacomplexes.coherent_artifact.coherent_artifact_megacomplex._calculate_coherent_artifact_matrix",
    "oscillation": "glotaran.builtin.megacomplexes.damped_oscillation.damped_oscillation_megacomplex.calculate_damped_oscillation_matrix_no_irf",
}


class Run:
    def __init__(self, plan):
        self.plan = plan
        self.rec = core.Recorder(PROP)
        self.tw = twins()
        self.sched_rng = random.Random(plan["sched_seed"])
        self.all_choices = []
        self.interleaved = 0
        self.kernel_calls = 0

    # one top-level kernel call under the scheduler --------------------------------
    def kernel_call(self, key, args):
        rec = self.rec
        self.kernel_calls += 1
        name = key.rsplit(".", 1)[1]
        gen_fn = self.tw.twin_gen(key)
        d = self.tw.found[key]["dispatcher"]
        arrays = [i for i, a in enumerate(args) if isinstance(a, np.ndarray)]
        # 1. compiled kernel on copies (fidelity reference)
        ref_args = [a.copy() if isinstance(a, np.ndarray) else a for a in args]
        saved = [(mod, attr, getattr(mod, attr)) for mod, attr, _ in self.tw._undo]
        for mod, attr, old in self.tw._undo:  # numba must see the real dispatchers when it compiles
            setattr(mod, attr, old)
        import numba

        nthreads = numba.get_num_threads()
        numba.set_num_threads(1)  # sequential semantics: a racy compiled kernel must not blur the twin-fidelity check
        try:
            d(*ref_args)
        finally:
            numba.set_num_threads(nthreads)
            for mod, attr, cur in saved:
                setattr(mod, attr, cur)
        # 2. sequential twin on copies
        seq_args = [a.copy() if isinstance(a, np.ndarray) else a for a in args]
        Ctx.enabled = False
        s0 = Scheduler(random.Random(0), "sequential")
        s0.run(gen_fn(*seq_args), name)
        for i in arrays:
            err = _rel(seq_args[i], ref_args[i])
            if not err <= 1e-10:
                raise core.HarnessError(
                    f"twin of {name} disagrees with the compiled kernel on argument {i} (rel err {err:.3e})"
                )
        # 3. sampled schedule on the caller's arrays, with access tracking
        tracked = [Tracked.wrap(a, i) if isinstance(a, np.ndarray) else a for i, a in enumerate(args)]
        Ctx.enabled = True
        sch = Scheduler(self.sched_rng, self.plan["policy"])
        try:
            sch.run(gen_fn(*tracked), name)
        finally:
            Ctx.enabled = False
            Ctx.current = None
        self.all_choices.extend(sch.choices)
        self.interleaved += sch.interleaved_regions
        rec.logical["steps"] += sch.steps
        rec.stat("parallel_regions", sch.regions)
        rec.stat("context_switches", sch.switches)
        shapes = [list(np.shape(a)) for a in args if isinstance(a, np.ndarray)]
        rec.event(kernel=name, shapes=shapes, steps=sch.steps, regions=sch.regions, switches=sch.switches,
                  choices=core.digest(sch.choices)[:16], out=[core.arr_digest(args[i]) for i in arrays])
        if sch.regions:
            rec.fault("sched", sch.switches)
        if sch.conflicts:
            c = sch.conflicts[0]
            rec.violate(
                "C10/prange-conflict",
                "schedule",
                f"kernel {name}: {c['kind']} conflict between iterations {c['iterations']} of a parallel loop on "
                f"argument {c['array']} element {c['element']} ({c['count']} elements); shapes={shapes}",
            )
            return
        for i in arrays:
            if not np.array_equal(args[i], seq_args[i], equal_nan=True):
                rec.violate(
                    "C10/prange-output",
                    "schedule",
                    f"kernel {name}: argument {i} after schedule policy={self.plan['policy']} differs from the sequential "
                    f"schedule (max abs diff {np.nanmax(np.abs(args[i] - seq_args[i])):.3e}); shapes={shapes}",
                )
                return
        if sch.regions:
            rec.oracle_after_fault += 1

    # ------------------------------------------------------------------
    def execute(self):
        rec, plan = self.rec, self.plan
        tw = self.tw
        # kernels the twin builder cannot model (e.g. a scalar reduction inside prange, which numba itself makes
        # race free) keep running as compiled code and are reported, never judged
        for key in tw.unsupported:
            rec.stat("unmodelled_kernel:" + key.rsplit(".", 1)[1])
        rec.stat("dispatchers_found", len(tw.found))
        with warnings.catch_warnings(), np.errstate(all="ignore"):
            warnings.simplefilter("ignore")
            tw.install(self)
            try:
                if plan["mode"] == "direct":
                    self.run_direct()
                else:
                    self.run_megacomplex()
            finally:
                tw.uninstall()
        if rec.discarded:
            return rec.outcome("discard", False)
        dkey = core.digest([plan["mode"], plan.get("kernel"), self.all_choices])
        rec.stat("kernel_calls", self.kernel_calls)
        return rec.outcome(dkey, self.interleaved > 0)

    def run_direct(self):
        plan = self.plan
        rg = np.random.default_rng(plan["data_seed"])
        nr, nt, ni, ng = plan["n_rates"], plan["n_times"], plan["n_index"], plan["n_gauss"]
        rates = rg.uniform(0.05, 2.0, nr)
        times = np.sort(rg.uniform(-1.0, 10.0, nt))
        k = plan["kernel"]
        key = KERNEL_KEYS[k]
        if key not in self.tw.funcs:
            self.rec.discarded = f"kernel {k} is not available / not modelled in this tree"
            return
        entry = self.tw.entry(key)
        if k == "no_irf":
            entry(np.zeros((nt, nr)), rates, times)
        elif k == "gaussian_irf":
            centers = rg.uniform(0.0, 1.0, (ni, ng))
            widths = rg.uniform(0.1, 0.5, (ni, ng))
            scales = rg.uniform(0.5, 1.5, ng)
            entry(np.zeros((ni, nt, nr)), rates, times, centers, widths, scales, plan["backsweep"], 40.0)
        elif k == "on_index":
            centers = rg.uniform(0.0, 1.0, ng)
            widths = rg.uniform(0.1, 0.5, ng)
            scales = rg.uniform(0.5, 1.5, ng)
            entry(np.zeros((nt, nr)), rates, times, centers, widths, scales, plan["backsweep"], 40.0)
        elif k == "coherent":
            order = 1 + plan["n_gauss"] % 3
            entry(np.zeros((ni, nt, order)), rg.uniform(0, 1, ni), rg.uniform(0.1, 0.5, ni), ni, times, order)
        else:
            nosc = max(1, nr // 2 + 1)
            entry(np.zeros((nt, 2 * nosc)), rg.uniform(1, 20, nosc), rg.uniform(0.1, 2, nosc), times)

    def run_megacomplex(self):
        from glotaran.optimization.optimization_group import OptimizationGroup

        from sim import workloads

        rec = self.rec
        try:
            scheme = workloads.build_scheme(self.plan["spec"], add_svd=False)
            groups = [OptimizationGroup(scheme, g) for g in scheme.model.get_dataset_groups().values()]
            for g in groups:
                g.calculate(scheme.parameters)
            pens = [g.get_full_penalty() for g in groups]
        except core.HarnessError:
            raise
        except Exception as e:  # noqa: BLE001
            if not rec.violations:
                rec.discarded = f"workload: {type(e).__name__}: {str(e)[:80]}"
            return
        rec.event(op="penalty", digest=[core.arr_digest(p) for p in pens])
        rec.probe("kernels_called_from_megacomplex_code", self.kernel_calls)


def _rel(a, b):
    a = np.asarray(a, dtype=float)
    b = np.asarray(b, dtype=float)
    if a.shape != b.shape:
        return float("inf")
    if a.size == 0:
        return 0.0
    if not np.array_equal(np.isfinite(a), np.isfinite(b)):
        return float("inf")
    m = np.isfinite(a)
    if not m.any():
        return 0.0
    return float(np.max(np.abs(a[m] - b[m])) / (1.0 + np.max(np.abs(b[m]))))


def execute(plan: dict) -> dict:
    return Run(plan).execute()


def shrink_candidates(plan: dict, violation: dict):
    import copy

    for pol in ("sequential", "reverse", "lockstep"):
        if plan["policy"] != pol:
            p = copy.deepcopy(plan)
            p["policy"] = pol
            yield p
    if plan["mode"] == "direct":
        for key in ("n_times", "n_rates", "n_index", "n_gauss"):
            lo = 2 if key in ("n_index", "n_gauss") else 1
            if plan[key] > lo:
                p = copy.deepcopy(plan)
                p[key] = max(lo, plan[key] // 2)
                yield p
                p = copy.deepcopy(plan)
                p[key] = plan[key] - 1
                yield p
        if plan.get("backsweep"):
            p = copy.deepcopy(plan)
            p["backsweep"] = False
            yield p
