"""C18 — saving never destroys existing files unless asked; project results accumulate.

System: the real ``glotaran.io.save_*`` functions with the real registered plugins and
a real ``Project`` on a real directory tree inside a per-run sandbox (tmpfs).
Reference: a dict ``relpath -> sha256`` of the sandbox plus ``result name -> run
numbers``.  Phase A (fixed plans) enumerates the save-function x format x target
state x flag x fault matrix; phase B runs seeded histories with faults, crashes and
restarts.  See DESIGN.md §4.18.
"""

from __future__ import annotations

import builtins
import errno
import hashlib
import io
import os
import random
import re
import shutil
import sys
import warnings

import numpy as np

from sim import core
from sim.core import InjectedFault
from sim.core import SimCrash

PROP = "C18"
NAME = "fssim"
RULE = (
    "fssim: phase A (fixed plans) = every save_* function x every registered format name plus an unknown name and inference "
    "from the extension x target state {absent, file, empty folder, non-empty folder} x allow_overwrite {unset, False, True} x "
    "fault {none, plugin raises at entry, first open fails, second open fails, torn file + crash}; phase B = seeded histories of "
    "5-25 ops (SAVE, PROJECT_OPTIMIZE with colliding result names, IMPORT_DATA, GENERATE_*, PROJECT_CREATE, lookups, RESTART, removal of an old run folder by the environment) with "
    "faults; distinct = digest of matrix cells / of (op-kind sequence, names, fault sites); non-trivial = an existing target or "
    "an earlier result was at stake (refusal or accumulation oracle evaluated) with at least one fault fired in the run, or a "
    "matrix cell whose target existed"
)
REAL_VS_STUB = {
    "real": "glotaran.io.save_*/load_*, all registered data-io and project-io plugins, protect_from_overwrite, Project and its "
    "four registries, the file system of the sandbox (tmpfs)",
    "stub": "Project.optimize calls a stubbed optimize() returning a precomputed Result in most history runs (real optimiser in "
    "the rest); netCDF bytes are written by a C library and cannot be intercepted (plugin-level faults only)",
}

DATA_FORMATS = ["ascii", "nc", "sdt"]
PROJECT_FORMATS = ["csv", "folder", "legacy", "ods", "tsv", "xlsx", "yaml", "yml", "yml_str"]
SAVE_FNS = {
    "save_dataset": ("data", "dataset"),
    "save_model": ("project", "model"),
    "save_parameters": ("project", "parameters"),
    "save_scheme": ("project", "scheme"),
    "save_result": ("project", "result"),
}
EXT_FOR = {
    "ascii": "ascii", "nc": "nc", "sdt": "sdt", "csv": "csv", "folder": "", "legacy": "", "ods": "ods", "tsv": "tsv",
    "xlsx": "xlsx", "yaml": "yaml", "yml": "yml", "yml_str": "yml_str", "nope": "nope",
}
TARGET_STATES = ["absent", "file", "empty_folder", "nonempty_folder"]
FLAGS = ["unset", "false", "true"]
MATRIX_FAULTS = ["none", "plugin_entry", "open_fail_1", "open_fail_2", "torn_crash_1"]
RESULT_NAMES = ["fit", "fit2", "fi", "refit", "fit_run_b", "fit_run_2", "fit_run_0000", "a_run_", "sub/fit", "sub", None]
RUN_PATTERN = re.compile(r".+_run_\d{4}$")

MODEL_YML = """
megacomplex:
  mc1:
    type: decay-parallel
    compartments: [s1]
    rates: [rates.1]
dataset:
  ds1:
    megacomplex: [mc1]
"""


# ---------------------------------------------------------------------------
# generation
# ---------------------------------------------------------------------------


def fixed_plans(tier: str) -> list[dict]:
    plans = []
    for fn, (reg, _) in SAVE_FNS.items():
        formats = (DATA_FORMATS if reg == "data" else PROJECT_FORMATS) + ["nope", "infer"]
        if fn == "save_result":
            formats.append("infer_folder")  # a folder path without extension and without format_name
        for fmt in formats:
            plans.append({"engine": NAME, "kind": "matrix", "fn": fn, "format": fmt})
    return plans


def gen_fault(rng: random.Random) -> dict | None:
    r = rng.random()
    if r < 0.70:
        return None
    kind = rng.choice(["plugin_entry", "open_fail", "open_fail", "torn_crash", "crash_at_open"])
    return {"kind": kind, "n": rng.choice([1, 1, 2, 3, 5, 8])}


FREE_PATHS = ["a.csv", "a.yml", "a.tsv", "d", "d/result.yml", "d/model.yml", "d.nc", "a.xlsx", "b.ascii", "d/sub/a.csv",
              # "link" is a symlink to real/inner: the same file reached lexically different ways
              "real/a.csv", "link/../a.csv", "real/a.csv", "link/../a.csv"]


def generate(rng: random.Random, tier: str) -> dict:
    ops = []
    n = rng.randint(5, 25)
    fault_free = rng.random() < 0.3
    names = rng.sample(RESULT_NAMES, k=rng.randint(2, 4))
    if "fit" not in names and rng.random() < 0.7:
        names[0] = "fit"  # most collisions are with the plain name
    if "sub/fit" in names and "sub" not in names and rng.random() < 0.6:
        names.append("sub")  # a result name that is also the folder part of another result name
    elif "sub" in names and "sub/fit" not in names and rng.random() < 0.6:
        names.append("sub/fit")
    for _ in range(n):
        r = rng.random()
        fault = None if fault_free else gen_fault(rng)
        if r < 0.30:
            ops.append({"op": "PROJECT_OPTIMIZE", "name": rng.choice(names), "fault": fault})
        elif r < 0.45:
            fn = rng.choice(list(SAVE_FNS))
            ops.append(
                {
                    "op": "SAVE",
                    "fn": fn,
                    "path": rng.choice(FREE_PATHS),
                    "format": rng.choice([None, None, "csv", "yml", "nc", "folder", "nope", "tsv"]),
                    "allow_overwrite": rng.choice(FLAGS),
                    "fault": fault,
                }
            )
        elif r < 0.53:
            ops.append(
                {
                    "op": "IMPORT_DATA",
                    "name": rng.choice(["dataset_1", "ds2"]),
                    "allow_overwrite": rng.random() < 0.3,
                    "ignore_existing": rng.random() < 0.3,
                    "variant": rng.randint(0, 2),
                    "fault": fault,
                }
            )
        elif r < 0.555:
            # several datasets at once; a later entry may be a source file that does not exist
            ops.append(
                {
                    "op": "IMPORT_MAPPING",
                    "names": rng.sample(["dataset_1", "ds2", "ds3"], k=rng.choice([2, 3])),
                    "bad_last": rng.random() < 0.6,
                    "allow_overwrite": rng.random() < 0.2,
                    "ignore_existing": rng.random() < 0.7,
                    "variant": rng.randint(0, 2),
                    "fault": fault,
                }
            )
        elif r < 0.60:
            ops.append(
                {
                    "op": "GENERATE_MODEL",
                    "name": rng.choice(["m", "m2"]),
                    "allow_overwrite": rng.random() < 0.3,
                    "ignore_existing": rng.random() < 0.3,
                    "generator": "decay_parallel",
                    "fault": fault,
                }
            )
        elif r < 0.67:
            ops.append(
                {
                    "op": "GENERATE_PARAMETERS",
                    "name": rng.choice([None, "p2"]),
                    "format": rng.choice(["yml", "csv", "yaml"]),
                    "allow_overwrite": rng.random() < 0.3,
                    "ignore_existing": rng.random() < 0.3,
                    "fault": fault,
                }
            )
        elif r < 0.71:
            ops.append({"op": "PROJECT_CREATE", "allow_overwrite": rng.random() < 0.4})
        elif r < 0.78:
            ops.append({"op": "GET_LATEST", "name": rng.choice(names), "with_specifier": rng.random() < 0.3})
        elif r < 0.84:
            ops.append({"op": "GET_RESULT_PATH", "name": rng.choice(names), "run": rng.choice([None, 0, 1, 2, 7])})
        elif r < 0.90:
            ops.append({"op": "LOAD_RESULT", "name": rng.choice(names), "run": rng.choice([None, 0, 1]), "latest": rng.random() < 0.5})
        elif r < 0.92:
            ops.append({"op": "RESULTS"})
        elif r < 0.95:
            # the environment: somebody removes an old (not the newest) run folder of a result
            ops.append({"op": "DELETE_OLD_RUN", "name": rng.choice(names), "which": rng.randrange(4)})
        else:
            ops.append({"op": "RESTART"})
    two_handles = rng.random() < 0.35
    if two_handles:
        for op in ops:
            op["handle"] = rng.randrange(2)
    for op in ops:
        if op["op"] in ("IMPORT_DATA", "IMPORT_MAPPING", "GENERATE_MODEL", "GENERATE_PARAMETERS", "PROJECT_CREATE"):
            # how the caller spells its booleans: real bools, numpy bools (result of a comparison) or ints
            op["flag_type"] = rng.choice(["bool", "bool", "numpy", "int"])
        if op["op"] == "PROJECT_OPTIMIZE" and rng.random() < 0.15:
            # another process optimises the same result name start to end while this one is still computing
            op["overlap"] = True
    return {
        "engine": NAME,
        "kind": "history",
        "ops": ops,
        "real_optimize": rng.random() < 0.15,
        "two_handles": two_handles,
        "odd_dir": rng.random() < 0.3,
    }


# ---------------------------------------------------------------------------
# file-system seams
# ---------------------------------------------------------------------------


def snapshot(root: str) -> dict:
    snap = {}
    for base, dirs, files in os.walk(root):
        rel = os.path.relpath(base, root)
        for d in dirs:
            snap[os.path.normpath(os.path.join(rel, d)) + "/"] = "dir"
        for f in files:
            p = os.path.join(base, f)
            try:
                with _REAL_OPEN(p, "rb") as fh:
                    snap[os.path.normpath(os.path.join(rel, f))] = hashlib.sha256(fh.read()).hexdigest()[:20]
            except OSError as e:  # pragma: no cover
                snap[os.path.normpath(os.path.join(rel, f))] = f"unreadable:{e.errno}"
    return snap


_REAL_OPEN = builtins.open
_REAL_IO_OPEN = io.open


class FsSeams:
    """Counts opens-for-write under the sandbox and delivers at most one armed fault."""

    def __init__(self, root: str):
        self.root = os.path.realpath(root)
        self.fault = None
        self.n_write = 0
        self.written: list = []
        self.fired: list = []
        self.plugin_calls: list = []
        self._wrapped = []

    def arm(self, fault):
        self.fault = fault
        self.n_write = 0
        self.written = []
        self.fired = []
        self.plugin_calls = []

    def _open(self, real):
        seams = self

        def sim_open(file, mode="r", *a, **kw):
            if isinstance(file, (str, bytes, os.PathLike)) and any(c in str(mode) for c in "wax+"):
                path = os.path.realpath(os.fsdecode(os.fspath(file)))
                if path.startswith(seams.root + os.sep):
                    seams.n_write += 1
                    f = seams.fault
                    if f and not seams.fired:
                        if f["kind"] == "open_fail" and seams.n_write == f["n"]:
                            seams.fired.append({"kind": "open_fail", "n": f["n"], "path": os.path.relpath(path, seams.root)})
                            raise OSError(errno.ENOSPC, "No space left on device (injected)", path)
                        if f["kind"] == "crash_at_open" and seams.n_write == f["n"]:
                            seams.fired.append({"kind": "crash_at_open", "n": f["n"], "path": os.path.relpath(path, seams.root)})
                            raise SimCrash(f"crash at open #{f['n']}")
                        if f["kind"] == "torn_crash" and seams.n_write == f["n"] + 1:
                            seams.tear_and_crash()
                    seams.written.append(path)
            return real(file, mode, *a, **kw)

        return sim_open

    def tear_and_crash(self):
        f = self.fault
        victim = self.written[f["n"] - 1] if len(self.written) >= f["n"] else None
        if victim and os.path.isfile(victim):
            size = os.path.getsize(victim)
            with _REAL_OPEN(victim, "r+b") as fh:
                fh.truncate(size // 2)
        self.fired.append(
            {"kind": "torn_crash", "n": f["n"], "path": os.path.relpath(victim, self.root) if victim else None}
        )
        raise SimCrash(f"crash after file #{f['n']} was torn")

    def end_of_op(self):
        """A torn_crash whose victim was the op's last file fires when the op returns."""
        f = self.fault
        if f and f["kind"] == "torn_crash" and not self.fired and len(self.written) >= f["n"] == len(self.written):
            try:
                self.tear_and_crash()
            except SimCrash as e:
                return e
        return None

    def __enter__(self):
        import glotaran.plugin_system.base_registry as _br

        reg = getattr(_br, "__PluginRegistry")  # no name mangling via getattr

        builtins.open = self._open(_REAL_OPEN)
        io.open = self._open(_REAL_IO_OPEN)
        seams = self
        seen = set()
        for registry in (reg.data_io, reg.project_io):
            for plugin in registry.values():
                if id(plugin) in seen:
                    continue
                seen.add(id(plugin))
                for mname in ("save_dataset", "save_model", "save_parameters", "save_scheme", "save_result"):
                    if not hasattr(plugin, mname):
                        continue
                    orig = getattr(plugin, mname)

                    def wrapper(*a, _orig=orig, _p=plugin, _m=mname, **kw):
                        seams.plugin_calls.append((type(_p).__name__, _p.format, _m))
                        f = seams.fault
                        if f and f["kind"] == "plugin_entry" and not seams.fired and len(seams.plugin_calls) == f["n"]:
                            seams.fired.append({"kind": "plugin_entry", "n": f["n"], "plugin": f"{type(_p).__name__}:{_m}"})
                            raise InjectedFault(f"plugin {type(_p).__name__}.{_m} raises at entry")
                        return _orig(*a, **kw)

                    plugin.__dict__[mname] = wrapper
                    self._wrapped.append((plugin, mname))
        return self

    def __exit__(self, *exc):
        builtins.open = _REAL_OPEN
        io.open = _REAL_IO_OPEN
        for plugin, mname in self._wrapped:
            plugin.__dict__.pop(mname, None)
        self._wrapped.clear()
        return False


# ---------------------------------------------------------------------------
# object pool (rebuilt per run: saving mutates source_path attributes)
# ---------------------------------------------------------------------------


def make_dataset(variant: int = 0):
    import xarray as xr

    t = np.linspace(0, 5, 8)
    lam = np.array([600.0, 620.0, 640.0])
    data = np.outer(np.exp(-0.5 * t), np.array([1.0, 2.0, 1.5])) * (1 + variant)
    return xr.DataArray(data, coords={"time": t, "spectral": lam}, dims=("time", "spectral")).to_dataset(name="data")


class Pool:
    def __init__(self):
        from glotaran.io import load_model
        from glotaran.io import load_parameters
        from glotaran.optimization.optimize import optimize
        from glotaran.project import Scheme

        self.dataset = make_dataset()
        self.model = load_model(MODEL_YML, format_name="yml_str")
        self.parameters = load_parameters("rates:\n  - ['1', 0.4]\n", format_name="yml_str")
        self.scheme = Scheme(
            model=self.model, parameters=self.parameters, data={"ds1": self.dataset},
            maximum_number_function_evaluations=1, add_svd=False,
        )
        old = sys.stdout
        sys.stdout = io.StringIO()
        try:
            self.result = optimize(self.scheme, verbose=False, raise_exception=True)
        finally:
            sys.stdout = old

    def get(self, what):
        return getattr(self, what)


# ---------------------------------------------------------------------------
# execution
# ---------------------------------------------------------------------------

_COUNTER = [0]


class Run:
    def __init__(self, plan):
        self.plan = plan
        self.rec = core.Recorder(PROP)
        _COUNTER[0] += 1
        self.sandbox = os.path.join(core.scratch_root(), "fssim", f"{os.getpid()}-{_COUNTER[0]}")
        if plan.get("odd_dir"):
            # the whole tree lives below a folder whose name has glob metacharacters and a space
            self.sandbox = os.path.join(self.sandbox, "measurements [2024] v?")
        self.cells = set()

    def execute(self):
        shutil.rmtree(self.sandbox, ignore_errors=True)
        os.makedirs(self.sandbox)
        old_cwd = os.getcwd()
        try:
            with warnings.catch_warnings():
                warnings.simplefilter("ignore")
                self.pool = Pool()  # objects for free-standing save_* calls
                self.proj_pool = Pool()  # independent Result for the stubbed Project.optimize (saving mutates source paths)
                self.fs = FsSeams(self.sandbox)
                with self.fs:
                    if self.plan["kind"] == "matrix":
                        return self.run_matrix()
                    return self.run_history()
        finally:
            os.chdir(old_cwd)
            builtins.open = _REAL_OPEN
            io.open = _REAL_IO_OPEN
            shutil.rmtree(self.sandbox, ignore_errors=True)
            if self.plan.get("odd_dir"):
                shutil.rmtree(os.path.dirname(self.sandbox), ignore_errors=True)

    # -- phase A -------------------------------------------------------------
    def prepare_target(self, cell_dir, rel_target, state):
        os.makedirs(cell_dir)
        # a bystander file next to the target that must never change
        with _REAL_OPEN(os.path.join(cell_dir, "bystander.txt"), "w") as f:
            f.write("bystander")
        target = os.path.join(cell_dir, rel_target)
        if state == "file":
            os.makedirs(os.path.dirname(target), exist_ok=True)
            with _REAL_OPEN(target, "w") as f:
                f.write("OLD CONTENT\n")
        elif state == "empty_folder":
            os.makedirs(target)
        elif state == "nonempty_folder":
            os.makedirs(target)
            with _REAL_OPEN(os.path.join(target, "keep.txt"), "w") as f:
                f.write("KEEP\n")
            with _REAL_OPEN(os.path.join(target, "model.yml"), "w") as f:
                f.write("old: model\n")
        return target

    def call_save(self, fn_name, obj, target, fmt, flag, extra=None):
        import glotaran.io as gio

        fn = getattr(gio, fn_name)
        kwargs = dict(extra or {})
        if fmt is not None:
            kwargs["format_name"] = fmt
        if flag != "unset":
            kwargs["allow_overwrite"] = flag == "true"
        err = None
        try:
            fn(obj, target, **kwargs)
        except BaseException as e:  # noqa: BLE001
            if isinstance(e, (core.HarnessError, core.RunTimeout)):
                raise
            err = e
        crash = self.fs.end_of_op() if err is None else None
        return err or crash

    def run_matrix(self):
        rec, plan = self.rec, self.plan
        fn_name = plan["fn"]
        fmts = [plan["format"]]
        if plan["format"] == "nope":
            # formats registered in this tree that the static list does not know (a new plugin): same treatment
            from glotaran.plugin_system.data_io_registration import known_data_formats
            from glotaran.plugin_system.project_io_registration import known_project_formats

            live = known_data_formats() if SAVE_FNS[fn_name][0] == "data" else known_project_formats()
            static = DATA_FORMATS if SAVE_FNS[fn_name][0] == "data" else PROJECT_FORMATS
            extra = [f for f in live if f not in static]
            for f in extra:
                EXT_FOR.setdefault(f, f)
                rec.stat(f"format_outside_static_list:{f}")
            fmts += extra
        self._cell_counter = 0
        for fmt in fmts:
            out = self.run_matrix_for(fn_name, fmt)
            if out is not None:
                return out
        return self._matrix_out()

    def run_matrix_for(self, fn_name, fmt):
        rec, plan = self.rec, self.plan
        what = SAVE_FNS[fn_name][1]
        n = self._cell_counter
        for state in TARGET_STATES:
            for flag in FLAGS:
                for fkind in MATRIX_FAULTS:
                    n += 1
                    cell = f"{fn_name}|{fmt}|{state}|{flag}|{fkind}"
                    cell_dir = os.path.join(self.sandbox, f"c{n}")
                    if fmt == "infer_folder":
                        ext, explicit = "", None
                    elif fmt == "infer":
                        ext = {"save_dataset": "nc", "save_model": "yml", "save_parameters": "csv", "save_scheme": "yml",
                               "save_result": "yml"}[fn_name]
                        explicit = None
                    else:
                        ext, explicit = EXT_FOR[fmt], fmt
                    rel_target = "out/target" + (f".{ext}" if ext else "")
                    if fn_name == "save_result" and ext in ("yml", "yaml"):
                        rel_target = "out/result." + ext
                    target = self.prepare_target(cell_dir, rel_target, state)
                    before = snapshot(cell_dir)
                    fault = {
                        "none": None,
                        "plugin_entry": {"kind": "plugin_entry", "n": 1},
                        "open_fail_1": {"kind": "open_fail", "n": 1},
                        "open_fail_2": {"kind": "open_fail", "n": 2},
                        "torn_crash_1": {"kind": "torn_crash", "n": 1},
                    }[fkind]
                    self.fs.root = os.path.realpath(cell_dir)
                    self.fs.arm(fault)
                    err = self.call_save(fn_name, self.pool.get(what), target, explicit, flag)
                    after = snapshot(cell_dir)
                    fired = bool(self.fs.fired)
                    self.fs.fault = None
                    must_refuse = flag != "true" and state in ("file", "nonempty_folder")
                    self.cells.add(cell)
                    rec.logical["ops"] += 1
                    outcome = "ok" if err is None else type(err).__name__
                    rec.event(cell=cell, outcome=outcome, fired=fired, changed=sorted(k for k in set(before) | set(after) if before.get(k) != after.get(k)))
                    if fault is not None and fired:
                        rec.fault(fkind)
                    tag = f"{fn_name}(format={explicit!r}, target={rel_target!r} [{state}], allow_overwrite={flag}), fault={fkind}"
                    if must_refuse:
                        rec.oracle_after_fault += 1
                        rec.probe("refusal_cell")
                        if not isinstance(err, FileExistsError):
                            rec.violate(
                                "C18/no-refusal",
                                "refusal",
                                f"{tag}: expected FileExistsError before anything is written, got {outcome}: {err}",
                            )
                            return self._matrix_out()
                        if self.fs.plugin_calls:
                            rec.violate(
                                "C18/plugin-invoked-before-check", "refusal", f"{tag}: plugin invoked {self.fs.plugin_calls}"
                            )
                            return self._matrix_out()
                        if before != after:
                            diff = sorted(k for k in set(before) | set(after) if before.get(k) != after.get(k))
                            rec.violate("C18/refusal-changed-files", "refusal", f"{tag}: files changed although refused: {diff}")
                            return self._matrix_out()
                        continue
                    # not a refusal cell: nothing outside the write scope may change
                    scope = os.path.relpath(target, cell_dir)
                    scope_dir = os.path.dirname(scope) if fn_name == "save_result" and ext in ("yml", "yaml") else scope
                    damaged = [
                        k
                        for k in before
                        if before.get(k) != after.get(k)
                        and not (k.rstrip("/") == scope or k.startswith(scope_dir.rstrip("/") + "/") or k.rstrip("/") == scope_dir)
                    ]
                    if damaged:
                        rec.violate("C18/collateral-damage", "collateral", f"{tag}: files outside the target changed: {damaged}")
                        return self._matrix_out()
                    if isinstance(err, FileExistsError) and not (flag != "true" and state != "absent"):
                        # over-protective refusal (e.g. the tsv plugin re-enters save_parameters without passing
                        # allow_overwrite on): not demanded either way by the property, recorded only
                        rec.stat("refused_although_overwrite_allowed")
        self._cell_counter = n
        return None

    def _matrix_out(self):
        rec = self.rec
        rec.stat("matrix_cells", len(self.cells))
        out = rec.outcome(core.digest(["matrix", self.plan["fn"], self.plan["format"]]), True)
        out["cells"] = sorted(self.cells)
        return out

    # -- phase B -------------------------------------------------------------
    def open_project(self):
        from glotaran.project import Project

        return Project.open(os.path.join(self.sandbox, "proj"))

    def run_history(self):
        import glotaran.optimization.optimize as optmod

        rec, plan = self.rec, self.plan
        self.proj_dir = os.path.join(self.sandbox, "proj")
        self.free_dir = os.path.join(self.sandbox, "free")
        os.makedirs(self.free_dir)
        os.makedirs(os.path.join(self.free_dir, "real", "inner"))
        os.symlink(os.path.join("real", "inner"), os.path.join(self.free_dir, "link"))
        # set the project up through the public API (fault-free)
        project = self.open_project()
        handles = [project, self.open_project()] if plan.get("two_handles") else [project]
        if plan.get("two_handles"):
            rec.probe("two_project_handles")
        project.import_data(make_dataset(), dataset_name="dataset_1")
        project.generate_model("m", "decay_parallel", {"nr_compartments": 1, "irf": False})
        project.generate_parameters("m")
        self.runs: dict = {}  # base name -> {number: "complete" | "partial"}
        self.run_files: dict = {}  # folder name -> {relpath: hash} for complete runs
        self.ambiguous_names = False
        real_optimize = optmod.optimize
        pool = self.proj_pool
        self.overlap = None
        run = self

        def stub_optimize(scheme, *a, **kw):
            if run.overlap is not None:
                (name,), run.overlap = run.overlap, None
                # a second process: its own Project handle, the same result name, start to end
                other = run.open_project()
                other.optimize("m", "m_parameters", result_name=name, maximum_number_function_evaluations=2)
                run.rec.probe("overlapping_optimize")
            return pool.result

        if not plan.get("real_optimize"):
            optmod.optimize = stub_optimize
        kinds = []
        try:
            for op in plan["ops"]:
                kind = op["op"]
                kinds.append(kind[:6] + str(op.get("name", ""))[:8] + (op.get("fault") or {}).get("kind", "")[:4])
                rec.logical["ops"] += 1
                before = snapshot(self.sandbox)
                handler = getattr(self, "op_" + kind.lower())
                h = op.get("handle", 0) % len(handles)
                project = handles[h]
                self.fs.arm(op.get("fault"))
                crash = None
                try:
                    project = handler(op, project, before) or project
                    handles[h] = project
                except SimCrash as e:
                    crash = e
                fired_here = bool(self.fs.fired)
                self.fs.arm(None)
                if crash is not None:
                    # process died: only the directory tree survives
                    rec.probe("crash_restart")
                    handles = [self.open_project() for _ in handles]  # the process died: every handle is gone
                    project = handles[0]
                if fired_here and kind in ("IMPORT_DATA", "IMPORT_MAPPING", "GENERATE_MODEL", "GENERATE_PARAMETERS"):
                    # the operator repairs the inputs a failed write may have damaged, so that a later
                    # Project.optimize failing is never the harness' own doing
                    self.repair_inputs(handles[0])
                if rec.violations:
                    break
            # bounded liveness: after the last fault a fault-free optimize completes and is loadable
            if not rec.violations:
                before = snapshot(self.sandbox)
                self.fs.arm(None)
                self.op_project_optimize(
                    {"op": "PROJECT_OPTIMIZE", "name": "fit", "fault": None}, handles[-1], before, final=True
                )
        finally:
            optmod.optimize = real_optimize
        dkey = core.digest([kinds, plan.get("real_optimize")])
        return rec.outcome(dkey, bool(rec.faults) and rec.oracle_after_fault > 0)

    # helpers ------------------------------------------------------------------
    def changed(self, before, after, allowed_prefixes=()):
        out = []
        for k in set(before) | set(after):
            if before.get(k) != after.get(k):
                if any(k == p or k.startswith(p.rstrip("/") + "/") or k.rstrip("/") == p.rstrip("/") for p in allowed_prefixes):
                    continue
                out.append(k)
        return sorted(out)

    def note_fault(self, op):
        if self.fs.fired:
            self.rec.fault(self.fs.fired[0]["kind"])
            return True
        return False

    def repair_inputs(self, project):
        import glob

        for pattern in ("models/m.yml", "parameters/m_parameters.*", "data/dataset_1.nc"):
            for path in glob.glob(os.path.join(glob.escape(self.proj_dir), pattern)):
                os.remove(path)
        project.import_data(make_dataset(), dataset_name="dataset_1")
        project.generate_model("m", "decay_parallel", {"nr_compartments": 1, "irf": False})
        project.generate_parameters("m")
        self.rec.probe("inputs_repaired_after_faulted_write")

    def op_restart(self, op, project, before):
        self.rec.event(op="RESTART")
        return self.open_project()

    def op_project_create(self, op, project, before):
        from glotaran.project import Project

        err = None
        try:
            Project.create(self.proj_dir, allow_overwrite=self.flag(op, "allow_overwrite"))
        except Exception as e:  # noqa: BLE001
            err = e
        after = snapshot(self.sandbox)
        self.rec.event(op="PROJECT_CREATE", allow=op["allow_overwrite"], outcome=type(err).__name__ if err else "ok")
        if not op["allow_overwrite"]:
            self.rec.oracle_after_fault += 1
            if not isinstance(err, FileExistsError):
                self.rec.violate("C18/no-refusal", "refusal", f"Project.create on an existing project without allow_overwrite: {err!r}")
            elif before != after:
                self.rec.violate("C18/refusal-changed-files", "refusal", f"Project.create refused but changed {self.changed(before, after)}")
        else:
            bad = self.changed(before, after, ["proj/project.gta"])
            if bad:
                self.rec.violate("C18/collateral-damage", "collateral", f"Project.create(allow_overwrite=True) changed {bad}")

    def flagged_target_op(self, op, label, target_rel, call, ignore_wins=True):
        """Common oracle for import_data / generate_*: target present => refusal or silent no-op."""
        rec = self.rec
        before = snapshot(self.sandbox)
        existed = target_rel in before
        err = None
        try:
            call()
        except SimCrash:
            self.note_fault(op)
            rec.event(op=label, outcome="crash", fired=self.fs.fired)
            after = snapshot(self.sandbox)
            bad = self.changed(before, after, [target_rel])
            if bad:
                rec.violate("C18/collateral-damage", "collateral", f"{label} (crashed) changed {bad}")
            raise
        except Exception as e:  # noqa: BLE001
            err = e
        crash = self.fs.end_of_op() if err is None else None
        fired = self.note_fault(op)
        after = snapshot(self.sandbox)
        allow, ignore = op["allow_overwrite"], op["ignore_existing"]
        rec.event(op=label, target=target_rel, existed=existed, allow=allow, ignore=ignore,
                  outcome=type(err).__name__ if err else "ok", fired=self.fs.fired)
        if existed and ignore and not allow:
            rec.oracle_after_fault += 1
            if err is not None and not fired:
                rec.violate("C18/ignore-existing-raises", "refusal", f"{label}: ignore_existing=True but raised {err!r}")
            elif before != after:
                rec.violate("C18/ignore-existing-wrote", "refusal", f"{label}: ignore_existing=True but changed {self.changed(before, after)}")
        elif existed and not allow and not ignore:
            rec.oracle_after_fault += 1
            if not isinstance(err, FileExistsError):
                rec.violate("C18/no-refusal", "refusal", f"{label}: target exists, allow_overwrite=False: expected FileExistsError, got {err!r}")
            elif before != after:
                rec.violate("C18/refusal-changed-files", "refusal", f"{label}: refused but changed {self.changed(before, after)}")
        else:
            bad = self.changed(before, after, [target_rel])
            if bad:
                rec.violate("C18/collateral-damage", "collateral", f"{label}: changed files other than its target: {bad}")
            if err is not None and not fired and not (existed and ignore):
                rec.stat(f"{label}_unexpected_error:{type(err).__name__}")
        if crash is not None:
            raise crash

    @staticmethod
    def flag(op, name):
        v = bool(op[name])
        kind = op.get("flag_type", "bool")
        if kind == "numpy":
            return np.bool_(v)
        if kind == "int":
            return int(v)
        return v

    def op_import_data(self, op, project, before):
        ds = make_dataset(op["variant"])
        self.flagged_target_op(
            op, "IMPORT_DATA", f"proj/data/{op['name']}.nc",
            lambda: project.import_data(ds, dataset_name=op["name"], allow_overwrite=self.flag(op, "allow_overwrite"),
                                        ignore_existing=self.flag(op, "ignore_existing")),
        )

    def op_import_mapping(self, op, project, before):
        rec = self.rec
        mapping = {name: make_dataset(op["variant"]) for name in op["names"]}
        if op["bad_last"]:
            mapping[op["names"][-1]] = os.path.join(self.sandbox, "no_such_source_file.nc")
        targets = [f"proj/data/{n}.nc" for n in op["names"]]
        existed = {t: before.get(t) for t in targets if t in before}
        allow, ignore = self.flag(op, "allow_overwrite"), self.flag(op, "ignore_existing")
        err = None
        try:
            project.import_data(mapping, allow_overwrite=allow, ignore_existing=ignore)
        except SimCrash:
            self.note_fault(op)
            raise
        except Exception as e:  # noqa: BLE001
            err = e
        crash = self.fs.end_of_op() if err is None else None
        self.note_fault(op)
        after = snapshot(self.sandbox)
        rec.event(op="IMPORT_MAPPING", names=op["names"], bad_last=op["bad_last"], allow=bool(allow), ignore=bool(ignore),
                  outcome=type(err).__name__ if err else "ok", fired=self.fs.fired)
        rec.oracle_after_fault += 1
        bad = self.changed(before, after, targets)
        if bad:
            rec.violate("C18/collateral-damage", "collateral", f"IMPORT_MAPPING {op['names']}: changed files other than its targets: {bad}")
        elif not allow:
            # without allow_overwrite an existing dataset file may never be modified or removed, whatever happens later
            for t, h in existed.items():
                if after.get(t) != h:
                    rec.violate(
                        "C18/existing-dataset-lost", "refusal",
                        f"import_data({op['names']}, allow_overwrite=False, ignore_existing={bool(ignore)}) "
                        f"{'removed' if t not in after else 'changed'} the existing {t} (outcome: {type(err).__name__ if err else 'ok'})",
                    )
                    break
            rec.probe("mapping_import")
        if crash is not None:
            raise crash

    def op_generate_model(self, op, project, before):
        self.flagged_target_op(
            op, "GENERATE_MODEL", f"proj/models/{op['name']}.yml",
            lambda: project.generate_model(op["name"], op["generator"], {"nr_compartments": 1, "irf": False},
                                           allow_overwrite=self.flag(op, "allow_overwrite"),
                                           ignore_existing=self.flag(op, "ignore_existing")),
        )

    def op_generate_parameters(self, op, project, before):
        name = op["name"] or "m_parameters"
        self.flagged_target_op(
            op, "GENERATE_PARAMETERS", f"proj/parameters/{name}.{op['format']}",
            lambda: project.generate_parameters("m", parameters_name=op["name"], format_name=op["format"],
                                                allow_overwrite=self.flag(op, "allow_overwrite"),
                                                ignore_existing=self.flag(op, "ignore_existing")),
        )

    def op_save(self, op, project, before):
        rec = self.rec
        fn_name = op["fn"]
        what = SAVE_FNS[fn_name][1]
        target = os.path.join(self.free_dir, op["path"])
        rel = os.path.relpath(os.path.realpath(target), os.path.realpath(self.sandbox))
        state = "absent"
        if os.path.isfile(target):
            state = "file"
        elif os.path.isdir(target):
            state = "nonempty_folder" if os.listdir(target) else "empty_folder"
        crash = None
        err = self.call_save(fn_name, self.pool.get(what), target, op["format"], op["allow_overwrite"])
        if isinstance(err, SimCrash):
            crash, err = err, None
        fired = self.note_fault(op)
        after = snapshot(self.sandbox)
        rec.event(op="SAVE", fn=fn_name, path=op["path"], format=op["format"], flag=op["allow_overwrite"], state=state,
                  outcome="crash" if crash else (type(err).__name__ if err else "ok"), fired=self.fs.fired)
        must_refuse = op["allow_overwrite"] != "true" and state in ("file", "nonempty_folder")
        tag = f"{fn_name}({op['path']!r} [{state}], format={op['format']!r}, allow_overwrite={op['allow_overwrite']})"
        if must_refuse:
            rec.oracle_after_fault += 1
            rec.probe("refusal_in_history")
            if not isinstance(err, FileExistsError):
                rec.violate("C18/no-refusal", "refusal", f"{tag}: expected FileExistsError, got {crash or err!r}")
            elif self.fs.plugin_calls:
                rec.violate("C18/plugin-invoked-before-check", "refusal", f"{tag}: plugin invoked {self.fs.plugin_calls}")
            elif before != after:
                rec.violate("C18/refusal-changed-files", "refusal", f"{tag}: changed {self.changed(before, after)}")
        else:
            scope = [rel]
            # a path through a symlinked directory followed by '..' names two places: the one the OS reaches and the
            # lexically normalised one (which e.g. the netCDF writer of xarray uses); both count as the op's target
            lexical = os.path.relpath(os.path.normpath(target), os.path.realpath(self.sandbox))
            if lexical != rel:
                scope.append(lexical)
                rec.probe("target_through_symlink_dotdot")
            if fn_name == "save_result" and rel.endswith((".yml", ".yaml")):
                scope = [os.path.dirname(p) for p in scope]
            # parents created by protect_from_overwrite are fine (dirs only)
            bad = [k for k in self.changed(before, after, scope) if not (k.endswith("/") and k not in before)]
            if bad:
                rec.violate("C18/collateral-damage", "collateral", f"{tag}: files outside the target changed: {bad}")
        if crash:
            raise crash

    # -- results -----------------------------------------------------------------
    def result_dirs(self, snap):
        """Run folders below results/: every top-level folder, and nested folders named like a run."""
        out = []
        for k in snap:
            if not (k.startswith("proj/results/") and k.endswith("/")):
                continue
            rel = k[len("proj/results/") : -1]
            if not rel:
                continue
            depth = rel.count("/")
            if depth == 0 and not any(j.startswith(k) and j.endswith("/") and j != k for j in snap):
                out.append(rel)  # a top-level folder without sub folders
            elif depth == 0 and re.search(r"_run_\d{4,}$", rel):
                out.append(rel)
            elif depth == 1 and re.search(r"_run_\d{4,}$", rel):
                out.append(rel)
        return sorted(out)

    def op_project_optimize(self, op, project, before, final=False):
        rec = self.rec
        name = op["name"]
        base = name or "m"
        if RUN_PATTERN.match(base):
            self.ambiguous_names = True
        old = sys.stdout
        sys.stdout = io.StringIO()
        err = crash = None
        overlapping = bool(op.get("overlap")) and not self.plan.get("real_optimize") and not op.get("fault")
        if overlapping:
            self.overlap = (name,)
        try:
            project.optimize("m", "m_parameters", result_name=name, maximum_number_function_evaluations=2)
        except SimCrash as e:
            crash = e
        except Exception as e:  # noqa: BLE001
            err = e
        finally:
            sys.stdout = old
        if err is None and crash is None:
            crash = self.fs.end_of_op()
        fired = self.note_fault(op)
        after = snapshot(self.sandbox)
        dirs_before, dirs_after = self.result_dirs(before), self.result_dirs(after)
        new_dirs = [d for d in dirs_after if d not in dirs_before]
        gone = [d for d in dirs_before if d not in dirs_after]
        rec.event(op="PROJECT_OPTIMIZE", name=name, new=new_dirs, outcome="crash" if crash else (type(err).__name__ if err else "ok"),
                  fired=self.fs.fired)
        known = self.runs.setdefault(base, {})
        tag = f"Project.optimize(result_name={name!r}) with existing results {dirs_before}"
        if gone:
            rec.violate("C18/result-lost", "accumulation", f"{tag}: result folders disappeared: {gone}")
            return
        # nothing outside the new folder(s) may change
        bad = self.changed(before, after, [f"proj/results/{d}" for d in new_dirs])
        # the parent folder of a nested result name may be created on the way
        bad = [k for k in bad if not (k.endswith("/") and k not in before and any(f"proj/results/{d}/".startswith(k) for d in new_dirs))]
        if bad:
            rec.violate("C18/earlier-results-changed", "accumulation", f"{tag}: changed {bad}")
            return
        rec.oracle_after_fault += 1
        ok = err is None and crash is None
        if overlapping and ok:
            # two complete runs were stored: both must be fresh, consecutive in some order, nothing lost
            if len(new_dirs) != 2:
                rec.violate(
                    "C18/run-number/overlapping-optimize", "accumulation",
                    f"{tag}: two overlapping optimize calls for {base!r} stored {new_dirs} (expected two fresh run folders)",
                )
                return
            nrs = []
            for d in new_dirs:
                m = re.fullmatch(re.escape(base) + r"_run_(\d{4,})", d)
                if not m or (known and int(m.group(1)) <= max(known)):
                    rec.violate("C18/run-number/overlapping-optimize", "accumulation", f"{tag}: new folder {d!r} is not a fresh run of {base!r}")
                    return
                nrs.append(int(m.group(1)))
            prefix_all = {d: {k: v for k, v in after.items() if k.startswith(f"proj/results/{d}/")} for d in new_dirs}
            for nr, d in zip(nrs, new_dirs):
                known[nr] = "complete"
                self.run_files[d] = prefix_all[d]
            return
        if overlapping and not ok and not fired:
            rec.violate(
                "C18/run-number/overlapping-optimize", "accumulation",
                f"{tag}: an optimize overlapping with another optimize of the same name raised {type(err).__name__}: {err} "
                f"- its run was not stored",
            )
            return
        if len(new_dirs) > 1:
            rec.violate("C18/run-number", "accumulation", f"{tag}: more than one new folder {new_dirs}")
            return
        if ok and not new_dirs:
            rec.violate("C18/run-number", "accumulation", f"{tag}: succeeded but no new result folder appeared (overwrote an old run?)")
            return
        if not ok and not fired:
            key = (
                "C18/run-number/name-contains-_run_"
                if isinstance(err, ValueError) and "invalid literal for int" in str(err)
                else "C18/run-number/collides-with-existing-run"
                if isinstance(err, FileExistsError)
                else "C18/optimize-raises"
            )
            rec.violate(key, "accumulation", f"{tag}: raised {type(err).__name__}: {err} without any injected fault")
            return
        if new_dirs:
            m = re.fullmatch(re.escape(base) + r"_run_(\d{4,})", new_dirs[0])
            if not m:
                rec.violate("C18/run-number", "accumulation", f"{tag}: new folder {new_dirs[0]!r} is not '{base}_run_NNNN'")
                return
            nr = int(m.group(1))
            if known and nr <= max(known):
                rec.violate(
                    "C18/run-number", "accumulation",
                    f"{tag}: new run number {nr} is not greater than the earlier runs {sorted(known)} of {base!r}",
                )
                return
            known[nr] = "complete" if ok else "partial"
            if ok:
                prefix = f"proj/results/{new_dirs[0]}/"
                self.run_files[new_dirs[0]] = {k: v for k, v in after.items() if k.startswith(prefix)}
            else:
                rec.probe("partial_result_folder")
            if len(known) > 1 and any(v == "partial" for v in known.values()):
                rec.probe("optimize_after_partial_run")
        if final and ok:
            rec.probe("liveness_final_optimize")
            self.check_loadable(project, new_dirs[0])

    def check_loadable(self, project, folder):
        from glotaran.project import Result

        try:
            res = project.load_result(folder)
            if not isinstance(res, Result):
                raise TypeError(f"load_result returned {type(res)}")
        except Exception as e:  # noqa: BLE001
            self.rec.violate("C18/result-not-loadable", "accumulation", f"complete run {folder!r} does not load: {type(e).__name__}: {e}")

    def is_plain_folder_of_that_name(self, path, base):
        """No run of ``base`` exists, but a folder named exactly ``base`` does (e.g. the parent folder of a nested
        result name, or a result saved by hand): the API hands that folder out.  The property speaks about runs;
        this case is recorded, not judged."""
        if path is None:
            return False
        got = os.path.relpath(os.path.realpath(str(path)), os.path.realpath(os.path.join(self.proj_dir, "results")))
        if got == base and not RUN_PATTERN.match(got):
            self.rec.stat("lookup_returned_plain_folder_without_runs")
            return True
        return False

    def expected_latest(self, base):
        known = self.runs.get(base) or {}
        return f"{base}_run_{max(known):04d}" if known else None

    def judgeable(self):
        return not self.ambiguous_names

    def op_get_latest(self, op, project, before):
        rec = self.rec
        base = op["name"] or "m"
        query = base
        if op["with_specifier"]:
            query = f"{base}_run_0000"
        err = path = None
        try:
            path = project.get_latest_result_path(query)
        except Exception as e:  # noqa: BLE001
            err = e
        want = self.expected_latest(base)
        rec.event(op="GET_LATEST", query=query, outcome=type(err).__name__ if err else os.path.basename(str(path)))
        if not self.judgeable() or RUN_PATTERN.match(base):
            rec.stat("lookup_not_judged_ambiguous_name")
            return
        rec.oracle_after_fault += 1
        if want is None:
            if not isinstance(err, ValueError) and not self.is_plain_folder_of_that_name(path, base):
                rec.violate("C18/latest-lookup", "lookup", f"get_latest_result_path({query!r}) with no run of {base!r}: expected ValueError, got {path or err!r}")
            return
        if err is not None:
            key = "C18/latest-lookup/run-specifier-stripped" if op["with_specifier"] else "C18/latest-lookup"
            rec.violate(key, "lookup", f"get_latest_result_path({query!r}) raised {type(err).__name__}: {err}; runs of {base!r}: {sorted(self.runs[base])}")
            return
        got = os.path.relpath(os.path.realpath(str(path)), os.path.realpath(os.path.join(self.proj_dir, "results")))
        if got != want:
            key = "C18/latest-lookup/run-specifier-stripped" if op["with_specifier"] else (
                "C18/latest-lookup/name-contains-_run_" if any("_run_" in b for b in self.runs) else "C18/latest-lookup")
            rec.violate(
                key, "lookup",
                f"get_latest_result_path({query!r}) resolved to {got!r}, the most recent run of exactly {base!r} is {want!r} "
                f"(all result folders: {self.result_dirs(snapshot(self.sandbox))})",
            )
        else:
            rec.probe("latest_lookup_correct")

    def op_get_result_path(self, op, project, before):
        rec = self.rec
        base = op["name"] or "m"
        query = base if op["run"] is None else f"{base}_run_{op['run']:04d}"
        err = path = None
        try:
            path = project.get_result_path(query, latest=True)
        except Exception as e:  # noqa: BLE001
            err = e
        rec.event(op="GET_RESULT_PATH", query=query, outcome=type(err).__name__ if err else os.path.basename(str(path)))
        if not self.judgeable() or RUN_PATTERN.match(base):
            rec.stat("lookup_not_judged_ambiguous_name")
            return
        rec.oracle_after_fault += 1
        if op["run"] is None:
            want = self.expected_latest(base)
        else:
            want = query if op["run"] in (self.runs.get(base) or {}) else None
        if want is None:
            if not isinstance(err, ValueError) and not (op["run"] is None and self.is_plain_folder_of_that_name(path, base)):
                rec.violate("C18/result-lookup", "lookup", f"get_result_path({query!r}): expected ValueError, got {path or err!r}")
            return
        if err is not None:
            rec.violate("C18/result-lookup", "lookup", f"get_result_path({query!r}) raised {type(err).__name__}: {err}")
            return
        got = os.path.relpath(os.path.realpath(str(path)), os.path.realpath(os.path.join(self.proj_dir, "results")))
        if got != want:
            key = "C18/latest-lookup/name-contains-_run_" if any("_run_" in b for b in self.runs) and op["run"] is None else "C18/result-lookup"
            rec.violate(key, "lookup", f"get_result_path({query!r}) resolved to {got!r}, expected {want!r}")

    def op_load_result(self, op, project, before):
        from glotaran.project import Result

        rec = self.rec
        base = op["name"] or "m"
        known = self.runs.get(base) or {}
        err = res = None
        if op["latest"] or op["run"] is None:
            query, want_nr = base, (max(known) if known else None)
            call = lambda: project.load_latest_result(base)  # noqa: E731
        else:
            query, want_nr = f"{base}_run_{op['run']:04d}", (op["run"] if op["run"] in known else None)
            call = lambda: project.load_result(query)  # noqa: E731
        try:
            res = call()
        except Exception as e:  # noqa: BLE001
            err = e
        after = snapshot(self.sandbox)
        rec.event(op="LOAD_RESULT", query=query, latest=op["latest"], outcome=type(err).__name__ if err else "ok")
        if before != after:
            rec.violate("C18/load-changed-files", "accumulation", f"loading {query!r} changed {self.changed(before, after)}")
            return
        if not self.judgeable() or RUN_PATTERN.match(base):
            return
        rec.oracle_after_fault += 1
        if want_nr is None:
            if err is None:
                rec.violate("C18/result-lookup", "lookup", f"loading non-existent result {query!r} returned {type(res).__name__}")
            return
        if known[want_nr] == "partial":
            return  # an aborted save may be unloadable
        if err is not None or not isinstance(res, Result):
            key = "C18/latest-lookup/name-contains-_run_" if any("_run_" in b for b in self.runs) and (op["latest"] or op["run"] is None) else "C18/result-not-loadable"
            rec.violate(key, "accumulation", f"complete run {base}_run_{want_nr:04d} does not load via {query!r}: {type(err).__name__}: {err}")
        else:
            rec.probe("earlier_run_loaded")

    def op_delete_old_run(self, op, project, before):
        base = op["name"] or "m"
        known = self.runs.get(base) or {}
        old = sorted(known)[:-1]
        if not old:
            self.rec.event(op="DELETE_OLD_RUN", outcome="skipped")
            return
        nr = old[op["which"] % len(old)]
        folder = f"{base}_run_{nr:04d}"
        shutil.rmtree(os.path.join(self.proj_dir, "results", folder), ignore_errors=True)
        del known[nr]
        self.run_files.pop(folder, None)
        self.rec.event(op="DELETE_OLD_RUN", folder=folder)
        self.rec.probe("gap_in_run_numbers")

    def op_results(self, op, project, before):
        rec = self.rec
        try:
            items = dict(project.results)
        except Exception as e:  # noqa: BLE001
            rec.violate("C18/results-listing", "lookup", f"Project.results raised {type(e).__name__}: {e}")
            return
        dirs = self.result_dirs(before)
        rec.event(op="RESULTS", keys=sorted(items))
        missing = [d for d in dirs if d not in items]
        if missing:
            rec.violate("C18/results-listing", "lookup", f"Project.results lacks {missing} (has {sorted(items)})")


def execute(plan: dict) -> dict:
    return Run(plan).execute()


def shrink_candidates(plan: dict, violation: dict):
    import copy

    if plan["kind"] == "matrix":
        return
    ops = plan["ops"]
    n = len(ops)
    size = n // 2
    while size >= 1:
        for start in range(0, n, size):
            p = copy.deepcopy(plan)
            del p["ops"][start : start + size]
            yield p
        size //= 2
    for i, op in enumerate(ops):
        if op.get("fault"):
            p = copy.deepcopy(plan)
            p["ops"][i]["fault"] = None
            yield p
    if plan.get("real_optimize"):
        p = copy.deepcopy(plan)
        p["real_optimize"] = False
        yield p
