"""C10-A — the objective is pure across evaluation histories; optimize() leaves inputs unchanged.

The simulator plays scipy: ``glotaran.optimization.optimizer.least_squares`` is
replaced by a driver that walks a generated history of evaluations (random walk,
repeats, returns to earlier points, evaluations that raise, thread-count
switches) through the public path ``optimize()`` -> ``objective_function`` ->
``create_result()``.  See DESIGN.md §4.10.A.
"""

from __future__ import annotations

import random
import sys
import warnings

import numpy as np

from sim import core
from sim import seams as S
from sim import workloads
from sim.faultsim import EXC_CHOICES
from sim.faultsim import compare_datasets
from sim.faultsim import result_digest
from sim.faultsim import values_from_x

PROP = "C10"
NAME = "evalsim"
RULE = (
    "evalsim: one run = generated scheme + 8-40 ops (EVAL/REPEAT/RETURN/EVAL_FAULT/RETRY/THREADS/SIDE_OPTIMIZER/RESTART/OPTIMIZE); "
    "distinct = digest of (scheme feature vector, op-kind sequence, fault sites); non-trivial = at least one injected fault "
    "fired AND at least one purity oracle was evaluated after it"
)
REAL_VS_STUB = {
    "real": "Optimizer, OptimizationGroup, providers, megacomplexes, compiled numba kernels, LAPACK VarPro/scipy NNLS, asteval, "
    "scipy least_squares in OPTIMIZE ops",
    "stub": "scipy least_squares replaced by the scripted history driver in history segments",
}
# event fields that hold numbers computed by the system under test (everything else is a harness choice)
SUT_OUTPUT_FIELDS = {"penalty", "digest", "outcome"}
# the determinism probe re-runs the first runs of every batch in fresh interpreters that have ONE numba thread
# (the main batch has 16): "however many threads the compiled kernels use and whether or not the process is fresh"
DET_PROBE_ENV = {"NUMBA_NUM_THREADS": "1"}
DETERMINISM_SAMPLE = 32  # evaluation histories are cheap: a fifth of the quick batch is re-run in other interpreters
THREADS = [1, 2, 3, 5, 16]
EVAL_SITES = ["objective", "group", "fill_item", "matrix", "residual", "line"]


def gen_eval_fault(rng: random.Random) -> dict:
    kind = rng.choices(["exc", "nonfinite", "bad_x"], weights=[70, 15, 15])[0]
    if kind == "exc":
        site = rng.choice(EVAL_SITES)
        f = {"kind": "exc", "site": site, "exc": rng.choice(EXC_CHOICES)}
        if site == "line":
            f["n"] = rng.choice([1, 3, 10, rng.randint(1, 300), rng.randint(1, 3000), rng.randint(1, 3000)])
        elif site != "objective":
            f["j"] = rng.choice([1, 1, 2, 3, 4])
        return f
    if kind == "nonfinite":
        return {
            "kind": "nonfinite",
            "j": rng.choice([1, 1, 2]),
            "value": rng.choice(["nan", "inf", "-inf"]),
            "where": rng.choice(["all", "one"]),
            "flat": rng.randint(0, 50),
        }
    return {"kind": "bad_x", "how": rng.choice(["nan", "short", "long", "inf"])}


def generate(rng: random.Random, tier: str) -> dict:
    small = tier == "quick" or rng.random() < 0.4
    spec = workloads.gen_spec(rng, for_fit=True, small=small)
    n_ops = rng.randint(8, 40)
    fault_rate = rng.choice([0.0, 0.1, 0.2, 0.35])
    ops = []
    n_eval = 0
    for _ in range(n_ops):
        r = rng.random()
        if r < fault_rate:
            ops.append({"op": "EVAL_FAULT", "dx": _dx(rng), "fault": gen_eval_fault(rng)})
            if rng.random() < 0.4:
                ops.append({"op": "RETRY"})  # the failed point is evaluated again, now without the fault
        elif r < fault_rate + 0.08:
            ops.append({"op": "THREADS", "t": rng.choice(THREADS)})
        elif r < fault_rate + 0.11:
            # somebody else constructs (and maybe evaluates) another optimizer for the same scheme in between
            ops.append({"op": "SIDE_OPTIMIZER", "evaluate": rng.random() < 0.5, "keep": rng.random() < 0.5})
        elif r < fault_rate + 0.13:
            ops.append({"op": "RESTART"})
        elif r < fault_rate + 0.18:
            ops.append({"op": "OPTIMIZE", "add_svd": rng.random() < 0.3})
        elif r < fault_rate + 0.36 and n_eval:
            ops.append({"op": "REPEAT"})
        elif r < fault_rate + 0.50 and n_eval:
            ops.append({"op": "RETURN", "i": rng.randrange(n_eval)})
        else:
            ops.append({"op": "EVAL", "dx": _dx(rng)})
            n_eval += 1
    return {"engine": NAME, "spec": spec, "ops": ops}


def _dx(rng):
    scale = rng.choice([1e-8, 1e-3, 0.05, 0.3])
    return [round(rng.uniform(-1, 1) * scale, 12) for _ in range(6)]


class Abort(Exception):
    """Raised inside the driver to stop a segment after a violation."""


class Run:
    def __init__(self, plan):
        self.plan = plan
        self.rec = core.Recorder(PROP)
        self.self_table: dict = {}  # x bytes -> penalty digest (strict self-consistency)
        self.ref_table: dict = {}  # x bytes -> reference penalty | exception name
        self.eval_xs: list = []  # x of every EVAL op (for RETURN)
        self.last_x = None
        self.kept: list = []
        self.requested_threads = 16
        self.faulted_x = None
        self.fault_pending = False
        self.opt_digests: dict = {}
        self.kinds: list = []
        self.fault_sites: list = []

    # ------------------------------------------------------------------
    def execute(self):
        rec, plan = self.rec, self.plan
        spec = plan["spec"]
        try:
            self.scheme = workloads.build_scheme(spec)
            self.template = workloads.build_parameters(spec)
        except Exception as e:  # noqa: BLE001
            rec.discarded = f"build: {type(e).__name__}: {str(e)[:80]}"
            return rec.outcome("discard", False)
        self.snap = S.snapshot_scheme(self.scheme)
        self.free_labels, x0, self.lb, self.ub = self.template.get_label_value_and_bounds_arrays(exclude_non_vary=True)
        self.x0 = np.asarray(x0, dtype=float)
        self.ref = S.Reference(spec)
        # feasibility of the workload: the reference must evaluate the initial point
        try:
            self.reference_penalty(self.x0)
            if isinstance(self.ref_table[self.x0.tobytes()], str):
                raise RuntimeError(self.ref_table[self.x0.tobytes()])
        except Exception as e:  # noqa: BLE001
            rec.discarded = f"baseline: {str(e)[:90]}"
            return rec.outcome("discard", False)

        import numba

        self.numba = numba
        numba.set_num_threads(numba.config.NUMBA_NUM_THREADS)
        self.seams = S.EvalSeams(rec)
        self.seams.trace_until_history = False
        if any(p.expression is not None for p in self.template.all()):
            self.seams.on_group_calculate = self.expression_probe
        segments = self.split(plan["ops"])
        with self.seams:
            try:
                for seg in segments:
                    if seg["kind"] == "optimize":
                        self.do_optimize(seg["op"])
                    else:
                        self.do_history(seg["ops"])
                    if rec.violations:
                        break
            finally:
                numba.set_num_threads(numba.config.NUMBA_NUM_THREADS)
        rec.logical["ops"] = len(plan["ops"])
        dkey = core.digest([spec["features"], self.kinds, self.fault_sites])
        return rec.outcome(dkey, bool(rec.faults) and rec.oracle_after_fault > 0)

    @staticmethod
    def split(ops):
        segments, cur = [], []
        for op in ops:
            if op["op"] in ("RESTART", "OPTIMIZE"):
                if cur:
                    segments.append({"kind": "history", "ops": cur})
                    cur = []
                if op["op"] == "OPTIMIZE":
                    segments.append({"kind": "optimize", "op": op})
            else:
                cur.append(op)
        if cur:
            segments.append({"kind": "history", "ops": cur})
        return segments

    # ------------------------------------------------------------------
    def check_inputs(self, tag):
        # a read-only use of the caller's own parameters (array export re-evaluates expressions) must not reveal
        # anything either: the caller's values are consistent, so nothing may move
        try:
            self.scheme.parameters.get_label_value_and_bounds_arrays()
        except Exception as e:  # noqa: BLE001
            self.rec.violate("C10/inputs-changed", "inputs", f"after {tag}: the caller's parameters cannot be exported any more: {e!r}")
            return False
        diffs = S.diff_snapshot(self.snap, S.snapshot_scheme(self.scheme))
        if diffs:
            self.rec.violate("C10/inputs-changed", "inputs", f"after {tag}: {diffs[:4]}")
            return False
        return True

    def reference_penalty(self, x):
        key = np.asarray(x, dtype=float).tobytes()
        if key not in self.ref_table:
            try:
                with warnings.catch_warnings():
                    warnings.simplefilter("ignore")
                    self.ref_table[key] = np.array(self.ref.penalty_at_x(self.free_labels, x), dtype=float)
            except Exception as e:  # noqa: BLE001
                self.ref_table[key] = f"{type(e).__name__}"
        return self.ref_table[key]

    def x_from(self, dx):
        if self.x0.size == 0:
            return self.x0.copy()
        base = self.last_x if self.last_x is not None else self.x0
        x = base + np.resize(np.asarray(dx, dtype=float), self.x0.shape)
        return np.minimum(np.maximum(x, self.lb), self.ub)

    # one evaluation through fun -------------------------------------------
    def evaluate(self, fun, x, tag, fault=None):
        rec, sm = self.rec, self.seams
        if fault is not None:
            if fault["kind"] == "bad_x":
                x = np.array(x, dtype=float, copy=True)
                how = fault["how"]
                if how == "nan" and x.size:
                    x[0] = np.nan
                elif how == "inf" and x.size:
                    x[-1] = np.inf
                elif how == "short":
                    x = x[:-1] if x.size else np.array([1.0])
                else:
                    x = np.concatenate([x, [0.5]])
                rec.fault("bad_x")
                self.fault_sites.append(f"bad_x:{how}")
            else:
                sm.fault = dict(fault, k=sm.eval_no + 1)
            try:
                with warnings.catch_warnings():
                    warnings.simplefilter("ignore")
                    out = fun(x)
                outcome = "returned"
            except Exception as e:  # noqa: BLE001 - any failure of a faulted evaluation is allowed
                outcome = type(e).__name__
                out = None
            finally:
                sys.settrace(None)
                sm.fault = None
            fired = [f for f in sm.fired]
            sm.fired = []
            sm.escaped = None
            if fault["kind"] != "bad_x":
                if fired:
                    rec.fault(f"{fault['kind']}@{fault.get('site', 'matrix')}")
                    site = fired[0].get("at") or [fault.get("site", "matrix")]
                    self.fault_sites.append(":".join(map(str, site[:2])))
                    self.probe_fault_site(fired[0])
                else:
                    rec.stat("fault_not_fired")
            self.fault_pending = self.fault_pending or bool(fired) or fault["kind"] == "bad_x"
            rec.event(op=tag, fault=fault, fired=fired, outcome=outcome)
            return None
        # fault-free evaluation
        key = np.asarray(x, dtype=float).tobytes()
        try:
            with warnings.catch_warnings():
                warnings.simplefilter("ignore")
                pen = np.array(fun(x), dtype=float, copy=True)
            err = None
        except Exception as e:  # noqa: BLE001
            pen, err = None, e
        finally:
            sys.settrace(None)
        ref = self.reference_penalty(x)
        after_fault = self.fault_pending
        if err is not None:
            rec.event(op=tag, x=core.arr_digest(x), outcome=type(err).__name__)
            if isinstance(ref, str):
                rec.stat("both_raise")
                return None
            key_v = "C10/fault-residue" if after_fault else "C10/impure-raises"
            rec.violate(
                key_v,
                "purity",
                f"{tag}: evaluation at x={x.tolist()} raised {type(err).__name__}: {err} "
                f"but a fresh optimizer evaluates it fine (after_fault={after_fault})",
            )
            raise Abort()
        d = core.arr_digest(pen)
        rec.event(op=tag, x=core.arr_digest(x), penalty=d, threads=self.requested_threads)
        rec.logical["evaluations"] += 1
        if isinstance(ref, str):
            rec.violate(
                "C10/impure-reference",
                "purity",
                f"{tag}: evaluation at x={x.tolist()} succeeded but a fresh optimizer raises {ref}",
            )
            raise Abort()
        prev = self.self_table.get(key)
        if prev is not None and prev != d:
            rec.violate(
                "C10/impure-self",
                "purity",
                f"{tag}: penalty at x={x.tolist()} differs from the penalty computed earlier at the same x "
                f"(after_fault={after_fault}, threads={self.numba.get_num_threads()} of {self.numba.config.NUMBA_NUM_THREADS})",
            )
            raise Abort()
        self.self_table.setdefault(key, d)
        if prev is not None:
            rec.probe("same_x_revisited")
        e = S.rel_err(pen, ref)
        if e == 0.0 and np.array_equal(pen, ref, equal_nan=True):
            rec.probe("ref_bit_equal")
        else:
            rec.probe("ref_not_bit_equal")
        if not e <= 1e-10:
            rec.violate(
                "C10/impure-reference",
                "purity",
                f"{tag}: penalty at x={x.tolist()} differs from a fresh optimizer's (rel err {e:.3e}, "
                f"sizes {pen.shape} vs {np.shape(ref)}, after_fault={after_fault})",
            )
            raise Abort()
        if after_fault:
            rec.oracle_after_fault += 1
            rec.probe("recovered_after_fault")
            self.fault_pending = False
        self.last_x = np.array(x, dtype=float, copy=True)
        return pen

    def side_optimizer(self, op):
        """Another Optimizer on the caller's scheme, built while the first one is in the middle of its history."""
        from glotaran.optimization.optimizer import Optimizer

        saved = (self.seams.in_ls, self.seams.on_group_calculate)
        self.seams.in_ls = False  # its evaluations are not part of the simulated optimiser's schedule
        try:
            with warnings.catch_warnings():
                warnings.simplefilter("ignore")
                other = Optimizer(self.scheme, verbose=False, raise_exception=True)
                if op.get("evaluate"):
                    other.calculate_penalty()
            if op.get("keep"):
                self.kept.append(other)
            self.rec.event(op="SIDE_OPTIMIZER", evaluate=bool(op.get("evaluate")))
            self.rec.probe("side_optimizer_constructed")
        except Exception as e:  # noqa: BLE001
            self.rec.event(op="SIDE_OPTIMIZER", outcome=type(e).__name__)
        finally:
            self.seams.in_ls, self.seams.on_group_calculate = saved

    def expression_probe(self, parameters):
        """C12 in-run probe: the model must be evaluated with mutually consistent parameter values."""
        from sim import paramsim

        declared = [
            {"label": p.label, "expr": p.expression, "value": p.value, "non_negative": p.non_negative, "vary": p.vary}
            for p in parameters.all()
        ]
        model = paramsim.Model(declared)
        want = model.values()
        self.rec.probe("expression_consistency_checked_at_evaluation")
        for p in parameters.all():
            if p.expression is not None and not paramsim.same(p.value, want[p.label]):
                if not self.rec.violations:
                    self.rec.violate(
                        "C10/evaluated-with-stale-expression",
                        "purity",
                        f"model evaluated with {p.label} = {p.value!r} although its expression {p.expression!r} gives "
                        f"{want[p.label]!r} on the current values (property C12 seen from inside an optimisation)",
                    )
                return

    def probe_fault_site(self, fired):
        at = fired.get("at")
        if not at:
            return
        fn = at[2] if len(at) > 2 else ""
        rec = self.rec
        if "estimation_provider" in at[0]:
            rec.probe("fault_in_estimation_provider")
        if "matrix_provider" in at[0]:
            rec.probe("fault_in_matrix_provider")
        if "parameters.py" in at[0]:
            rec.probe("fault_in_parameter_update")
        if "parameter_history" in at[0]:
            rec.probe("fault_in_history_append")
        if "item.py" in at[0]:
            rec.probe("fault_in_fill_item")
        if "Linked" in fn or "align" in fn:
            rec.probe("fault_in_linked_path")
        if "full_model" in fn:
            rec.probe("fault_in_full_model_path")

    # ------------------------------------------------------------------
    def do_history(self, ops):
        from glotaran.optimization.optimize import optimize
        from scipy.optimize import OptimizeResult

        rec = self.rec
        run = self
        state = {"final": None}

        def driver(fun, x0, bounds=None, **kw):
            x0 = np.asarray(x0, dtype=float)
            if not np.array_equal(x0, run.x0):
                rec.violate(
                    "C10/inputs-changed", "inputs", f"initial vector handed to the optimiser changed: {x0} vs {run.x0}"
                )
                raise Abort()
            pen = run.evaluate(fun, x0, "EVAL0")
            run.kinds.append("E0")
            final = (x0, pen)
            if pen is None:
                raise RuntimeError("initial evaluation failed in reference and system alike")
            for op in ops:
                kind = op["op"]
                run.kinds.append(kind[:3] + (op.get("fault", {}).get("kind", "")[:1]))
                if kind == "EVAL":
                    x = run.x_from(op["dx"])
                    run.eval_xs.append(x)
                    pen = run.evaluate(fun, x, "EVAL")
                elif kind == "REPEAT":
                    x = run.last_x if run.last_x is not None else x0
                    pen = run.evaluate(fun, x, "REPEAT")
                elif kind == "RETURN":
                    if not run.eval_xs:
                        rec.event(op="RETURN", outcome="skipped")
                        continue
                    x = run.eval_xs[op["i"] % len(run.eval_xs)]
                    pen = run.evaluate(fun, x, "RETURN")
                elif kind == "EVAL_FAULT":
                    x = run.x_from(op["dx"])
                    run.faulted_x = x
                    run.eval_xs.append(x)
                    run.evaluate(fun, x, "EVAL_FAULT", fault=op["fault"])
                    continue
                elif kind == "RETRY":
                    if run.faulted_x is None:
                        rec.event(op="RETRY", outcome="skipped")
                        continue
                    x = run.faulted_x
                    pen = run.evaluate(fun, x, "RETRY")
                    rec.probe("retry_of_failed_point")
                elif kind == "SIDE_OPTIMIZER":
                    run.side_optimizer(op)
                    continue
                elif kind == "THREADS":
                    run.requested_threads = op["t"]
                    run.numba.set_num_threads(min(op["t"], run.numba.config.NUMBA_NUM_THREADS))
                    rec.event(op="THREADS", t=op["t"])
                    rec.probe("thread_switch")
                    continue
                else:
                    raise core.HarnessError(f"unknown op {kind}")
                if pen is not None and np.all(np.isfinite(pen)):
                    final = (x, pen)  # like a real optimiser, the driver never reports a non-finite point as its solution
                if not run.check_inputs(kind):
                    raise Abort()
            state["final"] = final
            x, f = final
            return OptimizeResult(
                x=np.array(x, copy=True), cost=0.5 * float(np.dot(f, f)), fun=np.array(f, copy=True),
                jac=np.full((f.size, x.size), 1e-3), grad=np.zeros(x.size), optimality=0.0,
                active_mask=np.zeros(x.size, dtype=int), nfev=len(ops) + 1, njev=1, status=1,
                message="scripted history finished", success=True,
            )

        self.seams.driver = driver
        self.seams.reset(None)
        sentinel = S.StdoutSentinel()
        old = sys.stdout
        sys.stdout = sentinel
        result = err = None
        try:
            with warnings.catch_warnings():
                warnings.simplefilter("ignore")
                result = optimize(self.scheme, verbose=False, raise_exception=True)
        except Abort:
            pass
        except core.HarnessError:
            raise
        except Exception as e:  # noqa: BLE001
            err = e
        finally:
            sys.settrace(None)
            stdout_ok = sys.stdout is sentinel
            sys.stdout = old
        if rec.violations:
            return
        if not stdout_ok:
            rec.violate("C10/stdout-not-restored", "inputs", "sys.stdout not restored after a history segment")
            return
        if err is not None:
            if state["final"] is None and not self.kinds[:-1]:
                rec.discarded = f"first evaluation: {type(err).__name__}: {str(err)[:60]}"
                return
            # does a pristine instantiation with a one-evaluation history fail the same way?  Then the scheme
            # itself cannot produce a Result (e.g. zero degrees of freedom) - not a matter of history.
            ref_err = None
            try:
                fresh = workloads.build_scheme(self.plan["spec"])
                self.seams.driver = S.ScriptedDriver([[0.0]], 0)
                self.seams.reset(None)
                sys.stdout = S.StdoutSentinel()
                with warnings.catch_warnings():
                    warnings.simplefilter("ignore")
                    optimize(fresh, verbose=False, raise_exception=True)
            except Exception as e:  # noqa: BLE001
                ref_err = e
            finally:
                sys.stdout = old
            if ref_err is not None and type(ref_err) is type(err):
                rec.stat("result_unbuildable_for_pristine_scheme_too")
                rec.discarded = f"scheme cannot produce a Result: {type(err).__name__}: {str(err)[:50]}"
                return
            rec.violate(
                "C10/create-result-raises",
                "purity",
                f"optimize() with the scripted history raised {type(err).__name__}: {err} although every "
                f"fault-free evaluation agreed with the reference and a pristine scheme yields a Result",
            )
            return
        self.check_inputs("segment")
        if rec.violations:
            return
        # the Result must describe the final x
        x, f = state["final"]
        rec.event(op="RESULT", digest=result_digest(result))
        cost = 0.5 * float(np.dot(f, f))
        rc = float(result.cost)
        same_cost = rc == cost or (rc != rc and cost != cost) or abs(rc - cost) <= 1e-9 * (1 + abs(cost))
        if not same_cost:
            rec.violate(
                "C10/result-cost", "purity", f"Result.cost {float(result.cost)!r} != 0.5*|penalty(x_final)|^2 {cost!r}"
            )
            return
        vals = values_from_x(self.template, self.free_labels, x)
        try:
            _, ref_data = self.ref.at_values(vals)
        except Exception as e:  # noqa: BLE001
            rec.stat("reference_failed")
            return
        problems = compare_datasets(rec, result.data, ref_data, "history-result")
        if problems:
            rec.violate("C10/result-datasets", "purity", f"{problems[:3]}")
        elif self.rec.faults:
            rec.oracle_after_fault += 1

    # ------------------------------------------------------------------
    def do_optimize(self, op):
        from glotaran.optimization.optimize import optimize

        rec = self.rec
        self.kinds.append("OPT")
        self.seams.driver = None
        self.seams.reset(None)
        self.scheme.add_svd = bool(op.get("add_svd"))
        # add_svd is a caller-set option; keep the snapshot in step with the caller's own change
        self.snap = dict(self.snap, options=S.snapshot_scheme(self.scheme)["options"])
        sentinel = S.StdoutSentinel()
        old = sys.stdout
        sys.stdout = sentinel
        result = err = None
        try:
            with warnings.catch_warnings():
                warnings.simplefilter("ignore")
                result = optimize(self.scheme, verbose=False, raise_exception=True)
        except Exception as e:  # noqa: BLE001
            err = e
        finally:
            sys.stdout = old
        rec.logical["evaluations"] += self.seams.eval_no
        key = f"svd{int(self.scheme.add_svd)}"
        d = result_digest(result) if result is not None else f"raised:{type(err).__name__}:{err}"
        rec.event(op="OPTIMIZE", add_svd=self.scheme.add_svd, digest=d)
        if key in self.opt_digests:
            rec.probe("optimize_repeated")
            if self.opt_digests[key] != d:
                rec.violate(
                    "C10/optimize-not-repeatable",
                    "purity",
                    f"optimize() on the same scheme gave a different result the second time "
                    f"({'raised' if err else 'ok'}; after_fault={bool(rec.faults)})",
                )
                return
            if rec.faults:
                rec.oracle_after_fault += 1
        else:
            # first time: compare with a pristine re-instantiation of the scheme
            try:
                fresh = workloads.build_scheme(self.plan["spec"], add_svd=self.scheme.add_svd)
                with warnings.catch_warnings():
                    warnings.simplefilter("ignore")
                    sys.stdout = S.StdoutSentinel()
                    try:
                        self.seams.reset(None)
                        r2 = optimize(fresh, verbose=False, raise_exception=True)
                        d2 = result_digest(r2)
                    except Exception as e:  # noqa: BLE001
                        d2 = f"raised:{type(e).__name__}:{e}"
                    finally:
                        sys.stdout = old
            except Exception as e:  # noqa: BLE001
                d2 = None
            if d2 is not None and d2 != d:
                rec.violate(
                    "C10/optimize-not-repeatable",
                    "purity",
                    "optimize() on the caller's (re-used) scheme differs from optimize() on a pristine "
                    f"re-instantiation of the same scheme (after_fault={bool(rec.faults)})",
                )
                return
            self.opt_digests[key] = d
        self.check_inputs("OPTIMIZE")


def execute(plan: dict) -> dict:
    return Run(plan).execute()


def shrink_candidates(plan: dict, violation: dict):
    import copy

    ops = plan["ops"]
    n = len(ops)
    # chunks, then single ops
    size = n // 2
    while size >= 1:
        for start in range(0, n, size):
            p = copy.deepcopy(plan)
            del p["ops"][start : start + size]
            if len(p["ops"]) < n:
                yield p
        size //= 2
    for i, op in enumerate(ops):
        if op["op"] == "EVAL_FAULT":
            f = op["fault"]
            if f.get("site") == "line" and f.get("n", 1) > 1:
                p = copy.deepcopy(plan)
                p["ops"][i]["fault"]["n"] = max(1, f["n"] // 2)
                yield p
            if f.get("exc") not in (None, "InjectedFault"):
                p = copy.deepcopy(plan)
                p["ops"][i]["fault"]["exc"] = "InjectedFault"
                yield p
    spec = plan["spec"]
    for key in ("clp_penalties", "clp_relations", "clp_constraints", "weights"):
        if key in spec["model"]:
            p = copy.deepcopy(plan)
            del p["spec"]["model"][key]
            yield p
    if len(spec["data"]) > 1:
        last = sorted(spec["data"])[-1]
        p = copy.deepcopy(plan)
        del p["spec"]["data"][last]
        del p["spec"]["model"]["dataset"][last]
        yield p
