"""C12 — expression parameters always equal their expression.

System: a real ``Parameters`` object (real asteval interpreter).  Reference model:
``label -> value | expression`` evaluated in dependency order with Python's own
``eval`` over the same numpy functions.  One run is a history of operations
(construct in a permuted declaration order, updates as the optimiser performs
them, exports, history restore, copy, reload through yml/csv, failed updates)
checked step by step.  Fixed plans additionally enumerate *every* declaration
order of *every* small dependency graph.  See DESIGN.md §4.12.
"""

from __future__ import annotations

import itertools
import math
import os
import random
import shutil
import warnings

import numpy as np

from sim import core

PROP = "C12"
NAME = "paramsim"
RULE = (
    "paramsim: one run = acyclic expression graph over <=6 parameters in a seeded declaration order, constructed through one of "
    "6 constructors, followed by 5-30 ops (UPDATE/FD_UPDATE/EXPORT/HISTORY/COPY/REUPDATE/REDEFINE/RELOAD/faulted UPDATE); fixed plans enumerate all "
    "declaration orders of all DAGs on 3 (quick) / 4 (thorough) nodes; distinct = digest of (graph shape, declaration permutation "
    "class, constructor, op-kind sequence); non-trivial = graph has an expression depending on another expression AND at least one "
    "update happened after construction"
)
REAL_VS_STUB = {
    "real": "Parameters, Parameter, asteval interpreter, ParameterHistory, yml/csv/tsv parameter plugins, pandas",
    "stub": "none (file I/O goes to a sandbox directory on tmpfs)",
}

FLAT = ["a", "b", "c", "dd", "q", "w"]
NESTED = ["rates.k1", "rates.k2", "irf.center", "g.sub.x", "g.sub.y", "j.1"]
# labels that are prefixes of each other ($rates.k1 vs $rates.k10, $k vs $k.a): the $-reference rewriting must not confuse them
PREFIXY = ["rates.k1", "rates.k10", "rates.k", "irf.k1", "irf.k10", "rates.k11"]
CONSTRUCTORS = ["from_list", "from_dict", "from_dataframe", "dict_list", "yml_str", "csv"]
RELOADS = ["csv", "tsv", "xlsx", "yml_str", "dict_list", "dataframe"]

NS = {
    "exp": np.exp,
    "sqrt": np.sqrt,
    "log": np.log,
    "sin": np.sin,
    "cos": np.cos,
    "abs": np.absolute,
    "max": max,
    "min": min,
    "pi": math.pi,
}

# expression templates: {0}, {1} are "$label" references; all are total on finite inputs
TEMPLATES_1 = [
    "{0} + 1",
    "{0} * 2.5",
    "exp(-abs({0}) / 10)",
    "sqrt(abs({0})) + 1",
    "log(abs({0}) + 1)",
    "sin({0})",
    "-{0}",
    "1 - {0}",
    "{0} * {0}",
    "min({0}, 1.5)",
    "{0} / 3 + 0.25",
    "{0}",
]
TEMPLATES_2 = [
    "{0} + {1}",
    "{0} * {1}",
    "{0} - {1} * 2",
    "max({0}, {1})",
    "{0} / (abs({1}) + 3)",
    "exp(-abs({0})) + {1}",
    "({0} + {1}) / 2",
]
TEMPLATES_3 = ["{0} + {1} + {2}", "{0} * {1} - {2}", "max({0}, {1}) + {2}"]


def make_expr(rng, deps):
    refs = [f"${d}" for d in deps]
    if len(deps) == 1:
        return rng.choice(TEMPLATES_1).format(*refs)
    if len(deps) == 2:
        return rng.choice(TEMPLATES_2).format(*refs)
    if len(deps) == 3:
        return rng.choice(TEMPLATES_3).format(*refs)
    return " + ".join(refs)


def gen_graph(rng: random.Random, n: int, labels):
    """Random DAG over n nodes; node i may depend on nodes < i (topological numbering)."""
    shape = rng.choice(["random", "chain", "diamond", "fanin", "random"])
    deps = {i: [] for i in range(n)}
    n_base = rng.randint(1, max(1, n - 1))
    if shape == "chain":
        n_base = 1
        for i in range(1, n):
            deps[i] = [i - 1]
    elif shape == "diamond" and n >= 4:
        n_base = 1
        deps[1], deps[2], deps[3] = [0], [0], [1, 2]
        for i in range(4, n):
            deps[i] = [rng.randrange(i)]
    elif shape == "fanin" and n >= 3:
        n_base = n - 1
        deps[n - 1] = rng.sample(range(n - 1), k=min(3, n - 1))
    else:
        for i in range(n_base, n):
            k = rng.choice([1, 1, 2, 3])
            deps[i] = sorted(rng.sample(range(i), k=min(k, i)))
    params = []
    for i in range(n):
        p = {"label": labels[i], "expr": None}
        if deps[i]:
            p["expr"] = make_expr(rng, [labels[d] for d in deps[i]])
            p["value"] = rng.choice([0.0, 1.0, -3.5, 1e6, float("nan")])  # stale on purpose
        else:
            p["value"] = round(rng.uniform(0.1, 4.0), 4)
            p["non_negative"] = rng.random() < 0.3
            p["vary"] = rng.random() < 0.85
            if rng.random() < 0.2:
                p["min"], p["max"] = 1e-3, 50.0
        params.append(p)
    return params


def generate(rng: random.Random, tier: str) -> dict:
    n = rng.choice([2, 3, 3, 4, 4, 5, 6])
    labels = list(rng.choice([FLAT, NESTED, NESTED, PREFIXY]))
    rng.shuffle(labels)
    params = gen_graph(rng, n, labels[:n])
    order = list(range(n))
    mode = rng.choice(["topo", "reverse", "shuffle", "shuffle"])
    if mode == "reverse":
        order.reverse()
    elif mode == "shuffle":
        rng.shuffle(order)
    declared = [params[i] for i in order]
    constructor = rng.choice(CONSTRUCTORS)
    base_labels = [p["label"] for p in declared if p["expr"] is None]
    ops = []
    for _ in range(rng.randint(5, 30)):
        r = rng.random()
        if r < 0.40:
            k = rng.randint(1, len(base_labels))
            labs = rng.sample(base_labels, k=k)
            expr_labels = [p["label"] for p in declared if p["expr"] is not None]
            if expr_labels and rng.random() < 0.2:
                # a table-driven update (history row, stale columns) also carries a slot for an expression parameter;
                # whatever stands there must be overwritten by the expression
                labs.insert(rng.randrange(len(labs) + 1), rng.choice(expr_labels))
            ops.append({"op": "UPDATE", "labels": labs, "values": [round(rng.uniform(-2.0, 3.0), 5) for _ in labs]})
        elif r < 0.50:
            ops.append({"op": "EXPORT", "exclude_non_vary": rng.random() < 0.5})
        elif r < 0.60:
            ops.append({"op": "REUPDATE"})
        elif r < 0.68:
            ops.append({"op": "COPY", "continue_on_copy": rng.random() < 0.5})
        elif r < 0.78:
            ups = [[round(rng.uniform(-1.0, 2.0), 5) for _ in base_labels] for _ in range(rng.randint(1, 4))]
            # "partial": the history comes from a table (DataFrame / csv) that only has the columns of the base
            # parameters - restoring a record must still leave every expression evaluated
            ops.append(
                {
                    "op": "HISTORY",
                    "updates": ups,
                    "index": rng.choice([0, -1, -2, 1]),
                    "source": rng.choice(["recorded", "recorded", "partial_dataframe", "partial_csv"]),
                }
            )
        elif r < 0.83:
            ops.append({"op": "RELOAD", "how": rng.choice(RELOADS)})
        elif r < 0.87:
            # what a finite-difference jacobian does: nudge one free parameter by ~1.5e-8 (relative), repeatedly
            ops.append(
                {
                    "op": "FD_UPDATE",
                    "which": rng.randrange(6),
                    "rel": rng.choice([1.5e-8, 1.5e-8, 1e-6, 3e-10, 1e-12]),
                    "repeat": rng.choice([1, 1, 2, 5, 40]),
                }
            )
        elif r < 0.885:
            ops.append({"op": "UPDATE_ALL_FREE", "values": [round(rng.uniform(-2.0, 3.0), 5) for _ in range(6)]})
        elif r < 0.90:
            # the user re-defines the expression of an expression parameter (same dependencies, other formula)
            ops.append({"op": "REDEFINE", "which": rng.randrange(6), "template": rng.randrange(12), "then_update": rng.random() < 0.7})
        else:
            how = rng.choice(["unknown_label", "length", "get_raises", "overflow"])
            k = rng.randint(1, len(base_labels))
            bad = {
                "op": "BAD_UPDATE",
                "how": how,
                "labels": rng.sample(base_labels, k=k),
                "values": [round(rng.uniform(-2.0, 3.0), 5) for _ in range(k)],
                "at": rng.randint(1, 6),
            }
            ops.append(bad)
            if rng.random() < 0.5:
                # the caller retries the very same update without the mistake
                ops.append({"op": "UPDATE", "labels": list(bad["labels"]), "values": list(bad["values"])})
    return {"engine": NAME, "kind": "history", "params": declared, "constructor": constructor, "ops": ops}


# ---------------------------------------------------------------------------
# fixed plans: exhaustive small graphs x all declaration orders
# ---------------------------------------------------------------------------


def all_dags(n):
    """All DAGs on n topologically numbered nodes where node 0 is a base parameter."""
    pairs = [(i, j) for j in range(n) for i in range(j)]
    for mask in range(1 << len(pairs)):
        deps = {j: [] for j in range(n)}
        for b, (i, j) in enumerate(pairs):
            if mask >> b & 1:
                deps[j].append(i)
        yield deps


def fixed_plans(tier: str) -> list[dict]:
    plans = []
    sizes = [2, 3] if tier == "quick" else [2, 3, 4]
    for n in sizes:
        dags = list(all_dags(n))
        chunk = 8 if n < 4 else 16
        for start in range(0, len(dags), chunk):
            plans.append({"engine": NAME, "kind": "sweep", "n": n, "dags": dags[start : start + chunk]})
    if tier == "quick":
        # n=4: chains, diamonds and the complete DAG in all 24 orders
        special = [
            {0: [], 1: [0], 2: [1], 3: [2]},
            {0: [], 1: [0], 2: [0], 3: [1, 2]},
            {0: [], 1: [0], 2: [0, 1], 3: [0, 1, 2]},
            {0: [], 1: [], 2: [0, 1], 3: [2]},
        ]
        plans.append({"engine": NAME, "kind": "sweep", "n": 4, "dags": special})
    else:
        special = [
            {0: [], 1: [0], 2: [1], 3: [2], 4: [3]},
            {0: [], 1: [0], 2: [0], 3: [1, 2], 4: [3]},
            {0: [], 1: [], 2: [0, 1], 3: [2], 4: [2, 3]},
        ]
        plans.append({"engine": NAME, "kind": "sweep", "n": 5, "dags": special})
    return plans


# ---------------------------------------------------------------------------
# reference model
# ---------------------------------------------------------------------------


def ref_log(v):
    if not np.isfinite(v):
        return v
    if v == 1:
        v = v + 1e-10
    return np.log(v)


class Model:
    def __init__(self, declared):
        import re

        self.labels = [p["label"] for p in declared]
        self.expr = {p["label"]: p["expr"] for p in declared}
        self.base = {p["label"]: float(p["value"]) for p in declared if p["expr"] is None}
        self.non_negative = {p["label"]: bool(p.get("non_negative")) for p in declared}
        self.vary = {p["label"]: (p.get("vary", True) if p["expr"] is None else False) for p in declared}
        self.bounds = {p["label"]: (p.get("min", -np.inf), p.get("max", np.inf)) for p in declared}
        self._ref = re.compile(r"\$([\w.]+)")
        self.deps = {
            lab: ([m.rstrip(".") for m in self._ref.findall(e)] if e else []) for lab, e in self.expr.items()
        }
        self.topo = self._toposort()

    def _toposort(self):
        done, order = set(), []

        def visit(lab):
            if lab in done:
                return
            done.add(lab)
            for d in self.deps[lab]:
                visit(d)
            order.append(lab)

        for lab in self.labels:
            visit(lab)
        return order

    def values(self) -> dict:
        vals = dict(self.base)
        with warnings.catch_warnings(), np.errstate(all="ignore"):
            warnings.simplefilter("ignore")
            for lab in self.topo:
                e = self.expr[lab]
                if e is None:
                    continue
                code = self._ref.sub(lambda m: f"_v[{m.group(1)!r}]", e)
                vals[lab] = eval(code, {"__builtins__": {}}, dict(NS, _v=vals))  # noqa: S307
        return vals

    def set_optimizer_values(self, labels, values):
        for lab, v in zip(labels, values):
            if self.expr[lab] is not None:
                continue  # overwritten by the expression afterwards
            self.base[lab] = float(np.exp(v)) if self.non_negative[lab] else float(v)

    def free_labels(self):
        return [lab for lab in self.labels if self.vary[lab]]


def same(a, b, tol=1e-12):
    a, b = float(a), float(b)
    if a != a or b != b:
        return a != a and b != b
    if a == b:
        return True
    if math.isinf(a) or math.isinf(b):
        return False
    return abs(a - b) <= tol * max(1.0, abs(a), abs(b))


# ---------------------------------------------------------------------------
# constructors
# ---------------------------------------------------------------------------


def as_list_item(p):
    opts = {}
    if p["expr"] is not None:
        opts["expr"] = p["expr"]
    else:
        if p.get("non_negative"):
            opts["non-negative"] = True
        if not p.get("vary", True):
            opts["vary"] = False
        if "min" in p:
            opts["min"], opts["max"] = p["min"], p["max"]
    item = [p["label"], p["value"]]
    if opts:
        item.append(opts)
    return item


def as_record(p):
    rec = {"label": p["label"], "value": float(p["value"])}
    if p["expr"] is not None:
        rec["expression"] = p["expr"]
        rec["non_negative"] = False
        rec["vary"] = False
    else:
        rec["non_negative"] = bool(p.get("non_negative"))
        rec["vary"] = bool(p.get("vary", True))
        if "min" in p:
            rec["minimum"], rec["maximum"] = p["min"], p["max"]
    return rec


def nested_dict(declared):
    """Nested dict for Parameters.from_dict; declaration order = traversal order."""
    root: dict = {}
    for p in declared:
        parts = p["label"].split(".")
        if len(parts) == 1:
            parts = ["top", parts[0]]
        node = root
        for g in parts[:-2]:
            node = node.setdefault(g, {})
        item = as_list_item(p)
        item[0] = parts[-1]
        node.setdefault(parts[-2], []).append(item)
    return root


def construct(declared, how, sandbox):
    import pandas as pd

    from glotaran.io import load_parameters
    from glotaran.io import save_parameters
    from glotaran.parameter import Parameters

    flat = all("." not in p["label"] for p in declared)
    if how == "from_list":
        return Parameters.from_list([as_list_item(p) for p in declared]), None
    if how == "from_dict":
        rename = {p["label"]: f"top.{p['label']}" for p in declared} if flat else None
        params = Parameters.from_dict(nested_dict(rename_declared(declared, rename)))
        return params, rename
    if how == "dict_list":
        return Parameters.from_parameter_dict_list([as_record(p) for p in declared]), None
    if how == "from_dataframe":
        return Parameters.from_dataframe(pd.DataFrame([as_record(p) for p in declared])), None
    if how == "yml_str":
        import yaml

        if flat:
            text = yaml.safe_dump([as_list_item(p) for p in declared], sort_keys=False)
            return load_parameters(text, format_name="yml_str"), None
        text = yaml.safe_dump(nested_dict(declared), sort_keys=False)
        return load_parameters(text, format_name="yml_str"), None
    if how == "csv":
        first = Parameters.from_parameter_dict_list([as_record(p) for p in declared])
        path = os.path.join(sandbox, "construct.csv")
        # write the *declared* (possibly stale) values, not the evaluated ones
        df = pd.DataFrame([as_record(p) for p in declared])
        df.to_csv(path, index=False, na_rep="None")
        del first
        return load_parameters(path), None
    raise core.HarnessError(how)


def _plain(o):
    """numpy scalars -> Python scalars (yaml.safe_dump does not know numpy)."""
    if isinstance(o, dict):
        return {k: _plain(v) for k, v in o.items()}
    if isinstance(o, (list, tuple)):
        return [_plain(v) for v in o]
    if isinstance(o, np.generic):
        return o.item()
    if isinstance(o, bool) or o is None:
        return o
    if isinstance(o, float):
        return float(o)  # also ruamel's ScalarFloat
    if isinstance(o, int):
        return int(o)
    if isinstance(o, str):
        return str(o)
    return o


def rename_declared(declared, rename):
    import re

    if not rename:
        return declared
    out = []
    for p in declared:
        q = dict(p, label=rename[p["label"]])
        if q["expr"]:
            q["expr"] = re.sub(r"\$([\w.]+)", lambda m: "$" + rename.get(m.group(1), m.group(1)), q["expr"])
        out.append(q)
    return out


# ---------------------------------------------------------------------------
# execution
# ---------------------------------------------------------------------------


class Run:
    def __init__(self, plan):
        self.plan = plan
        self.rec = core.Recorder(PROP)
        self.sandbox = os.path.join(core.scratch_root(), "paramsim", f"{os.getpid()}")

    def consistent(self, params, model, tag, judge_base=True) -> bool:
        rec = self.rec
        want = model.values()
        for lab in model.labels:
            try:
                p = params.get(lab)
            except Exception as e:  # noqa: BLE001
                rec.violate("C12/parameter-lost", "structure", f"{tag}: parameter {lab} missing: {e}")
                return False
            if model.expr[lab] is None:
                if judge_base and not same(p.value, model.base[lab], 0.0):
                    rec.violate(
                        "C12/base-value",
                        "structure",
                        f"{tag}: base parameter {lab} = {p.value!r}, expected {model.base[lab]!r}",
                    )
                    return False
                continue
            if p.vary:
                rec.violate("C12/expression-varies", "structure", f"{tag}: expression parameter {lab} has vary=True")
                return False
            if not same(p.value, want[lab]):
                deps = {d: want.get(d) for d in model.deps[lab]}
                forward = any(model.expr.get(d) is not None for d in model.deps[lab])
                key = "C12/stale-expression/" + ("expression-dependency" if forward else "base-dependency")
                rec.violate(
                    key,
                    "consistency",
                    f"{tag}: {lab} = {p.value!r} but its expression {model.expr[lab]!r} evaluates to {want[lab]!r} "
                    f"on the current values {deps}; declaration order {[q.label for q in params.all()]}",
                )
                return False
        return True

    def execute(self):
        os.makedirs(self.sandbox, exist_ok=True)
        try:
            with warnings.catch_warnings(), np.errstate(all="ignore"):
                warnings.simplefilter("ignore")
                if self.plan["kind"] == "sweep":
                    return self.run_sweep()
                return self.run_history()
        finally:
            shutil.rmtree(self.sandbox, ignore_errors=True)

    # ------------------------------------------------------------------
    def run_sweep(self):
        from glotaran.parameter import Parameters

        rec, plan = self.rec, self.plan
        n = plan["n"]
        labels = FLAT[:n]
        count = 0
        for dag in plan["dags"]:
            dag = {int(k): v for k, v in dag.items()}
            params = []
            for i in range(n):
                if dag[i]:
                    refs = [f"${labels[d]}" for d in dag[i]]
                    expr = " + ".join(refs) + f" * {i + 2}" if len(refs) > 1 else f"{refs[0]} * {i + 2} + 1"
                    params.append({"label": labels[i], "expr": expr, "value": 0.0})
                else:
                    params.append({"label": labels[i], "expr": None, "value": float(i + 1.5)})
            base = [p["label"] for p in params if p["expr"] is None]
            for perm in itertools.permutations(range(n)):
                declared = [params[i] for i in perm]
                model = Model(declared)
                count += 1
                try:
                    ps = Parameters.from_list([as_list_item(p) for p in declared])
                except Exception as e:  # noqa: BLE001
                    rec.violate(
                        "C12/construct-raises",
                        "consistency",
                        f"sweep: constructing {[as_list_item(p) for p in declared]} raised {type(e).__name__}: {e}",
                    )
                    return self._sweep_out(count)
                tag = f"sweep construct order={[p['label'] for p in declared]} dag={dag}"
                if not self.consistent(ps, model, tag):
                    return self._sweep_out(count)
                # one optimiser-style update of every base parameter, then idempotence
                vals = [2.25 + j for j in range(len(base))]
                ps.set_from_label_and_value_arrays(base, np.array(vals))
                model.set_optimizer_values(base, vals)
                if not self.consistent(ps, model, tag + " after UPDATE"):
                    return self._sweep_out(count)
                before = [p.value for p in ps.all()]
                ps.update_parameter_expression()
                after = [p.value for p in ps.all()]
                if not all(same(x, y, 0.0) for x, y in zip(before, after)):
                    rec.violate("C12/not-idempotent", "consistency", f"{tag}: second update changed {before} -> {after}")
                    return self._sweep_out(count)
                rec.logical["ops"] += 3
        return self._sweep_out(count)

    def _sweep_out(self, count):
        rec, plan = self.rec, self.plan
        rec.stat("sweep_constructions", count)
        rec.event(op="sweep", n=plan["n"], dags=len(plan["dags"]), constructions=count, violations=len(rec.violations))
        out = rec.outcome(core.digest(["sweep", plan["n"], plan["dags"]]), True)
        return out

    # ------------------------------------------------------------------
    def run_history(self):
        from glotaran.io import load_parameters
        from glotaran.io import save_parameters
        from glotaran.parameter import ParameterHistory
        from glotaran.parameter import Parameters

        rec, plan = self.rec, self.plan
        declared = plan["params"]
        try:
            params, rename = construct(declared, plan["constructor"], self.sandbox)
        except Exception as e:  # noqa: BLE001
            rec.violate(
                "C12/construct-raises",
                "consistency",
                f"constructing via {plan['constructor']} raised {type(e).__name__}: {e}; params={declared}",
            )
            return rec.outcome("construct-raises", False)
        declared = rename_declared(declared, rename)
        ren = (lambda lab: rename.get(lab, lab)) if rename else (lambda lab: lab)
        model = Model(declared)
        depth2 = any(model.expr.get(d) is not None for lab in model.labels for d in model.deps[lab])
        forward = self._forward_reference(params, model)
        if depth2:
            rec.probe("expression_depends_on_expression")
        if forward:
            rec.probe("forward_reference_in_declaration_order")
        if max((self._depth(model, lab) for lab in model.labels), default=0) >= 3:
            rec.probe("chain_depth_ge_3")
        rec.event(op="CONSTRUCT", how=plan["constructor"], order=[p.label for p in params.all()])
        kinds = []
        updates = 0
        # csv / text constructors may round-trip floats: adopt the object's base values once
        self.adopt_base(params, model)
        ok = self.consistent(params, model, f"after CONSTRUCT({plan['constructor']})")
        originals = []  # (params object, frozen model) that must stay unchanged
        pending_recovery = False
        for op in plan["ops"]:
            if not ok or rec.violations:
                break
            kind = op["op"]
            kinds.append(kind[:4] + op.get("how", "")[:3])
            rec.logical["ops"] += 1
            tag = f"after {kind}"
            raised = None
            try:
                if kind == "UPDATE":
                    labs = [ren(lab) for lab in op["labels"]]
                    params.set_from_label_and_value_arrays(labs, np.array(op["values"], dtype=float))
                    model.set_optimizer_values(labs, op["values"])
                    updates += 1
                    if len(labs) == 1 and model.deps and any(labs[0] in d for d in model.deps.values()):
                        rec.probe("update_touching_single_base")
                elif kind == "UPDATE_ALL_FREE":
                    labs, vals, lo, hi = params.get_label_value_and_bounds_arrays(exclude_non_vary=True)
                    want_free = [p.label for p in params.all() if model.vary[p.label]]
                    if list(labs) != want_free:
                        rec.violate(
                            "C12/export-labels",
                            "structure",
                            f"free labels {labs} differ from the model's {want_free}",
                        )
                        break
                    new = np.resize(np.array(op["values"], dtype=float), len(labs))
                    params.set_from_label_and_value_arrays(labs, new)
                    model.set_optimizer_values(labs, new)
                    updates += 1
                elif kind == "FD_UPDATE":
                    labs, vals, lo, hi = params.get_label_value_and_bounds_arrays(exclude_non_vary=True)
                    if len(labs):
                        x = np.array(vals, dtype=float)
                        i = op["which"] % len(labs)
                        for _ in range(op["repeat"]):
                            h = op["rel"] * max(1.0, abs(x[i]))
                            x[i] = x[i] + h
                            params.set_from_label_and_value_arrays(labs, x.copy())
                            model.set_optimizer_values(labs, x)
                            updates += 1
                            if not self.consistent(params, model, f"after FD_UPDATE step h={h:g} on {labs[i]}"):
                                break
                        rec.probe("finite_difference_sized_update")
                elif kind == "REDEFINE":
                    exprs = [lab for lab in model.labels if model.expr[lab] is not None]
                    if exprs:
                        lab = exprs[op["which"] % len(exprs)]
                        deps = model.deps[lab]
                        refs = [f"${d}" for d in deps]
                        pool = TEMPLATES_1 if len(deps) == 1 else TEMPLATES_2 if len(deps) == 2 else TEMPLATES_3
                        new_expr = (
                            pool[op["template"] % len(pool)].format(*refs) if len(deps) <= 3 else " * ".join(refs)
                        )
                        params.get(lab).expression = new_expr
                        model.expr[lab] = new_expr
                        model.deps[lab] = [m.rstrip(".") for m in model._ref.findall(new_expr)]
                        model.topo = model._toposort()
                        if op["then_update"] and model.free_labels():
                            labs, vals, lo, hi = params.get_label_value_and_bounds_arrays(exclude_non_vary=True)
                            params.set_from_label_and_value_arrays(labs, np.array(vals))
                            model.set_optimizer_values(labs, vals)
                        else:
                            params.update_parameter_expression()
                        updates += 1
                        rec.probe("expression_redefined")
                elif kind == "EXPORT":
                    labs, vals, lo, hi = params.get_label_value_and_bounds_arrays(exclude_non_vary=op["exclude_non_vary"])
                    want = model.values()
                    exp_labels = [
                        p.label for p in params.all() if (model.vary[p.label] or not op["exclude_non_vary"])
                    ]
                    if list(labs) != exp_labels:
                        rec.violate(
                            "C12/export-labels",
                            "structure",
                            f"EXPORT(exclude_non_vary={op['exclude_non_vary']}) labels {labs} != {exp_labels}",
                        )
                        break
                    for lab, v in zip(labs, vals):
                        w = want[lab]
                        w = ref_log(w) if model.non_negative[lab] else w
                        if not same(v, w):
                            rec.violate(
                                "C12/stale-expression/export",
                                "consistency",
                                f"EXPORT value of {lab} is {v!r}, expected {w!r}",
                            )
                            break
                elif kind == "REUPDATE":
                    before = [p.value for p in params.all()]
                    params.update_parameter_expression()
                    after = [p.value for p in params.all()]
                    if not pending_recovery and not all(same(x, y, 0.0) for x, y in zip(before, after)):
                        rec.violate(
                            "C12/not-idempotent",
                            "consistency",
                            f"update_parameter_expression() changed values {before} -> {after}",
                        )
                        break
                elif kind == "COPY":
                    cp = params.copy()
                    if cp is params or any(a is b for a, b in zip(cp.all(), params.all())):
                        rec.violate("C12/copy-shares-state", "structure", "copy() shares Parameter objects with the original")
                        break
                    import copy as _copy

                    frozen = _copy.deepcopy(model)
                    if op["continue_on_copy"]:
                        if not pending_recovery:  # an object left stale by a failed update is not judged
                            originals.append((params, frozen))
                        params = cp
                        pending_recovery = False  # the copy was constructed afresh
                    else:
                        originals.append((cp, frozen))
                    rec.probe("copy_then_continue")
                elif kind == "HISTORY":
                    hist = ParameterHistory()
                    base_labels = [lab for lab in model.labels if model.expr[lab] is None]
                    records = []
                    hist.append(params)
                    records.append(dict(model.base))
                    for vals in op["updates"]:
                        vals = list(np.resize(np.array(vals, dtype=float), len(base_labels)))
                        params.set_from_label_and_value_arrays(base_labels, np.array(vals))
                        model.set_optimizer_values(base_labels, vals)
                        hist.append(params)
                        records.append(dict(model.base))
                        updates += 1
                    idx = op["index"]
                    if op.get("source", "recorded") != "recorded":
                        import pandas as pd

                        cols = ["iteration", *base_labels]
                        rows = []
                        for r in records:
                            rows.append(
                                [0.0] + [float(ref_log(r[lab])) if model.non_negative[lab] else float(r[lab]) for lab in base_labels]
                            )
                        df = pd.DataFrame(rows, columns=cols)
                        if op["source"] == "partial_csv":
                            path = os.path.join(self.sandbox, "partial_history.csv")
                            df.to_csv(path, index=False)
                            hist = ParameterHistory.from_csv(path)
                        else:
                            hist = ParameterHistory.from_dataframe(df)
                        rec.probe("history_from_partial_table")
                    if -len(records) <= idx < len(records):
                        params.set_from_history(hist, idx)
                        for lab, v in records[idx].items():
                            model.base[lab] = float(np.exp(ref_log(v))) if model.non_negative[lab] else v
                        self.adopt_base(params, model, tol=1e-9)
                        rec.probe("set_from_history")
                elif kind == "RELOAD":
                    how = op["how"]
                    if how in ("csv", "tsv", "xlsx"):
                        path = os.path.join(self.sandbox, f"reload.{how}")
                        if os.path.exists(path):
                            os.remove(path)  # (the tsv plugin refuses existing files even with allow_overwrite=True)
                        save_parameters(params, path, format_name=how)
                        params = load_parameters(path, format_name=how)
                    elif how == "yml_str":
                        import yaml

                        spec = params.to_parameter_dict_or_list(serialize_parameters=True)
                        if isinstance(spec, list):
                            spec = [p.as_list() for p in params.all()]
                        text = yaml.safe_dump(_plain(spec), sort_keys=False)
                        params = load_parameters(text, format_name="yml_str")
                    elif how == "dict_list":
                        params = Parameters.from_parameter_dict_list(params.to_parameter_dict_list())
                    else:
                        params = Parameters.from_dataframe(params.to_dataframe())
                    self.adopt_base(params, model, tol=1e-9)
                    pending_recovery = False  # a new object was constructed
                    rec.probe(f"reload_{how}")
                elif kind == "BAD_UPDATE":
                    self.bad_update(params, model, op, ren)
                    rec.fault(f"bad_update:{op['how']}")
                    pending_recovery = True
                    # whatever happened, base values are re-read; staleness is not judged now
                    self.adopt_base(params, model)
                    rec.event(op=kind, how=op["how"])
                    continue
                else:
                    raise core.HarnessError(kind)
            except core.HarnessError:
                raise
            except Exception as e:  # noqa: BLE001
                raised = e
            if raised is not None:
                rec.violate(
                    "C12/op-raises",
                    "consistency",
                    f"{kind} raised {type(raised).__name__}: {raised} (op={op})",
                )
                break
            if rec.violations:
                break
            if pending_recovery and kind == "COPY":
                ok = True  # current object still awaits its first re-evaluating op
            else:
                ok = self.consistent(
                    params, model, tag + (" (first successful op after a failed update)" if pending_recovery else "")
                )
            if ok and pending_recovery and kind in ("UPDATE", "UPDATE_ALL_FREE", "FD_UPDATE", "REUPDATE", "REDEFINE", "EXPORT", "HISTORY"):
                rec.oracle_after_fault += 1
                rec.probe("recovered_after_failed_update")
                pending_recovery = False
            for obj, frozen in originals:
                if obj is not params and not self.consistent(obj, frozen, tag + " (object left behind by COPY)"):
                    ok = False
                    break
            rec.event(op=kind, values=[float(p.value) for p in params.all()])
        dkey = core.digest([self._shape(model), forward, plan["constructor"], kinds])
        return rec.outcome(dkey, depth2 and updates > 0)

    # ------------------------------------------------------------------
    def adopt_base(self, params, model, tol=None):
        """Re-read base values from the object (after faults / text round trips)."""
        for lab in model.labels:
            if model.expr[lab] is None:
                v = float(params.get(lab).value)
                if tol is not None and not same(v, model.base[lab], tol):
                    self.rec.violate(
                        "C12/base-value",
                        "structure",
                        f"base parameter {lab} = {v!r} after reload/restore, expected {model.base[lab]!r}",
                    )
                model.base[lab] = v

    def bad_update(self, params, model, op, ren):
        from glotaran.parameter import Parameters

        how = op["how"]
        labs = [ren(lab) for lab in op["labels"]]
        vals = np.array(op["values"], dtype=float)
        try:
            if how == "unknown_label":
                labs = labs[: op["at"] % (len(labs) + 1)] + ["no.such.parameter"] + labs[op["at"] % (len(labs) + 1) :]
                vals = np.resize(vals, len(labs))
                params.set_from_label_and_value_arrays(labs, vals)
            elif how == "length":
                params.set_from_label_and_value_arrays(labs, np.concatenate([vals, [1.0]]))
            elif how == "overflow":
                params.set_from_label_and_value_arrays(labs, np.full(len(labs), 1e308))
            else:  # get_raises: Parameters.get fails at its n-th call (inside asteval evaluation too)
                orig = Parameters.get
                state = {"n": 0}

                def flaky(self_, label):
                    state["n"] += 1
                    if state["n"] == op["at"]:
                        raise core.InjectedFault(f"Parameters.get call {op['at']}")
                    return orig(self_, label)

                Parameters.get = flaky
                try:
                    params.set_from_label_and_value_arrays(labs, vals)
                finally:
                    Parameters.get = orig
        except Exception as e:  # noqa: BLE001 - a failed update may raise anything
            self.rec.stat(f"bad_update_raised:{type(e).__name__}")
        else:
            self.rec.stat("bad_update_no_raise")

    @staticmethod
    def _depth(model, lab, seen=()):
        if model.expr[lab] is None or lab in seen:
            return 0
        return 1 + max((Run._depth(model, d, (*seen, lab)) for d in model.deps[lab]), default=0)

    @staticmethod
    def _forward_reference(params, model):
        order = [p.label for p in params.all()]
        pos = {lab: i for i, lab in enumerate(order)}
        return any(
            model.expr.get(d) is not None and pos.get(d, -1) > pos.get(lab, -1)
            for lab in model.labels
            for d in model.deps[lab]
        )

    @staticmethod
    def _shape(model):
        idx = {lab: i for i, lab in enumerate(model.topo)}
        return sorted((idx[lab], sorted(idx[d] for d in model.deps[lab])) for lab in model.labels)


def execute(plan: dict) -> dict:
    return Run(plan).execute()


def shrink_candidates(plan: dict, violation: dict):
    import copy

    if plan["kind"] == "sweep":
        for dag in plan["dags"]:
            if len(plan["dags"]) > 1:
                p = copy.deepcopy(plan)
                p["dags"] = [dag]
                yield p
        return
    ops = plan["ops"]
    n = len(ops)
    if n:
        p = copy.deepcopy(plan)
        p["ops"] = []
        yield p
    size = n // 2
    while size >= 1:
        for start in range(0, n, size):
            p = copy.deepcopy(plan)
            del p["ops"][start : start + size]
            yield p
        size //= 2
    if plan["constructor"] != "from_list":
        p = copy.deepcopy(plan)
        p["constructor"] = "from_list"
        yield p
    # drop a parameter nobody depends on
    import re

    used = set()
    for q in plan["params"]:
        if q["expr"]:
            used.update(m.rstrip(".") for m in re.findall(r"\$([\w.]+)", q["expr"]))
    for i, q in enumerate(plan["params"]):
        if q["label"] not in used and len(plan["params"]) > 2:
            p = copy.deepcopy(plan)
            del p["params"][i]
            for op in p["ops"]:
                if "labels" in op:
                    keep = [(lab, v) for lab, v in zip(op["labels"], op["values"]) if lab != q["label"]]
                    op["labels"] = [k[0] for k in keep]
                    op["values"] = [k[1] for k in keep]
            p["ops"] = [op for op in p["ops"] if op.get("labels", [1])]
            yield p
