"""Coordinator / worker / shrinker / replayer for all engines.

Usage (normally through /verif/check):

    runner.py check  <PROP> [--tier quick|thorough] [--seed N] [--runs N] [--workers N]
    runner.py replay <PROP> <file>
    runner.py worker ...   (internal)
    runner.py shrink ...   (internal)
"""

from __future__ import annotations

import argparse
import faulthandler
import importlib
import json
import os
import random
import shutil
import signal
import subprocess
import sys
import time
import traceback

HERE = os.path.dirname(os.path.abspath(__file__))
VERIF = os.path.dirname(HERE)
if VERIF not in sys.path:
    sys.path.insert(0, VERIF)

from sim import core  # noqa: E402

# property -> engines
CHECKS = {
    "C10": ["prangesim", "evalsim"],
    "C12": ["paramsim"],
    "C15": ["faultsim"],
    "C18": ["fssim"],
    "C19": ["regsim"],
}
LEVEL = {
    "C10": "exploration",
    "C12": "exploration",
    "C15": "fault_enumeration",
    "C18": "fault_enumeration",
    "C19": "exploration",
}
# engine -> tier -> (runs, wall budget seconds for the batch)
BUDGET = {
    "faultsim": {"quick": (320, 420), "thorough": (2400, 3000)},
    "evalsim": {"quick": (240, 420), "thorough": (7200, 3000)},
    "prangesim": {"quick": (1600, 300), "thorough": (60000, 2400)},
    "paramsim": {"quick": (6000, 300), "thorough": (180000, 2400)},
    "fssim": {"quick": (480, 420), "thorough": (12000, 3000)},
    "regsim": {"quick": (12000, 300), "thorough": (600000, 2400)},
}
DETERMINISM_SAMPLE = 6
FIXED_BASE = 10_000_000  # run indices >= FIXED_BASE address an engine's deterministic fixed plans


def engine_module(name: str):
    return importlib.import_module(f"sim.{name}")


def fixed_plans_for(engine: str, tier: str) -> list:
    """Deterministic plans run in every batch: the engine's own enumerations plus the regression corpus
    (/verif/corpus/<engine>/*.json - minimised plans of every violation this machinery has found so far)."""
    eng = engine_module(engine)
    plans = list(eng.fixed_plans(tier)) if hasattr(eng, "fixed_plans") else []
    cdir = os.path.join(VERIF, "corpus", engine)
    if os.path.isdir(cdir):
        for name in sorted(os.listdir(cdir)):
            if name.endswith(".json"):
                with open(os.path.join(cdir, name)) as f:
                    doc = json.load(f)
                plans.append(doc["plan"] if "plan" in doc else doc)
    return plans


def known_keys(prop: str) -> dict:
    return {
        f["key"]: f
        for f in core.load_known_findings()
        if f.get("property") == prop and f.get("status") == "open"
    }


# ---------------------------------------------------------------------------
# worker
# ---------------------------------------------------------------------------


def cmd_worker(a) -> int:
    faulthandler.enable()
    if a.wall:
        faulthandler.dump_traceback_later(a.wall, exit=True)
    core.import_glotaran()
    eng = engine_module(a.engine)
    known = known_keys(a.prop)
    spec = a.indices
    if spec.startswith("@"):
        with open(spec[1:]) as f:
            spec = f.read()
    indices = [int(x) for x in spec.split(",") if x != ""]
    events_for = {int(x) for x in (a.events_for or "").split(",") if x != ""}
    t_start = time.time()
    # one run may take at most a seventh of the batch allowance (and never more than 300 s): a run that does not come
    # back must be discarded long before the worker's hard wall-clock kill
    per_run_limit = min(float(getattr(eng, "PER_RUN_LIMIT_S", 300)), max(30.0, (a.wall or 1200) / 7.0))

    def on_alarm(signum, frame):
        raise core.RunTimeout()

    signal.signal(signal.SIGALRM, on_alarm)
    with open(a.out, "w") as out:
        if hasattr(eng, "warmup"):
            eng.warmup()
        for i in indices:
            if a.wall and time.time() - t_start > a.wall * 0.85:
                out.write(json.dumps({"truncated_at": i}) + "\n")
                break
            rs = core.run_seed(f"{a.prop}/{a.engine}", a.seed, i)
            line = {"i": i, "run_seed": rs}
            # a run that hangs inside C code (seen: LAPACK gelsd looping on a NaN jacobian inside scipy's dogbox)
            # cannot be interrupted by the SIGALRM watchdog: the worker is killed shortly after and the coordinator
            # discards exactly this run and restarts a worker for the rest
            out.write(json.dumps({"started": i}) + "\n")
            out.flush()
            faulthandler.cancel_dump_traceback_later()
            faulthandler.dump_traceback_later(per_run_limit * 1.5 + 30, exit=True)
            t0 = time.time()
            try:
                if i >= FIXED_BASE:
                    plan = fixed_plans_for(a.engine, a.tier)[i - FIXED_BASE]
                    line["fixed_plan"] = i - FIXED_BASE
                else:
                    plan = eng.generate(random.Random(rs), a.tier)
                signal.setitimer(signal.ITIMER_REAL, per_run_limit, 5.0)
                try:
                    outcome = eng.execute(plan)
                finally:
                    signal.setitimer(signal.ITIMER_REAL, 0)
            except core.RunTimeout:
                # a run that does not come back (seen: scipy's nnls cycling on an ill-conditioned matrix inside a real
                # least_squares call) says nothing about the property: discard it, visibly
                sys.settrace(None)
                sys.stdout = sys.__stdout__
                line.update({"discarded": f"timeout: run exceeded {per_run_limit}s", "violations": [], "wall": per_run_limit})
                out.write(json.dumps(line) + "\n")
                out.flush()
                continue
            except core.HarnessError:
                line["harness_error"] = traceback.format_exc()
                out.write(json.dumps(line) + "\n")
                out.flush()
                return 3
            except Exception:  # noqa: BLE001 - an engine bug is a harness error, not a violation
                line["harness_error"] = traceback.format_exc()
                out.write(json.dumps(line) + "\n")
                out.flush()
                return 3
            line["wall"] = round(time.time() - t0, 4)
            events = outcome.pop("events")
            line.update(outcome)
            unknown = [v for v in outcome["violations"] if v["key"] not in known]
            if outcome["violations"] or i in events_for or a.keep_events or i in (indices[0], indices[len(indices) // 2], indices[-1]):
                line["plan"] = core.jsonable(plan)
            if unknown or a.keep_events or i in events_for:
                line["events"] = events
            out.write(json.dumps(line) + "\n")
            out.flush()
            if unknown:
                break
    return 0


# ---------------------------------------------------------------------------
# shrink / replay
# ---------------------------------------------------------------------------


def _has_key(outcome: dict, key: str) -> bool:
    return any(v["key"] == key for v in outcome["violations"])


def cmd_shrink(a) -> int:
    faulthandler.enable()
    faulthandler.dump_traceback_later(a.wall + 60, exit=True)
    core.import_glotaran()
    eng = engine_module(a.engine)
    with open(a.plan) as f:
        doc = json.load(f)
    plan, key = doc["plan"], doc["violation"]["key"]
    t0 = time.time()
    executions = 0
    outcome = eng.execute(plan)
    if not _has_key(outcome, key):
        print(f"shrink: violation {key} did not reproduce in the shrinker process", file=sys.stderr)
        return 4
    improved = True
    while improved and executions < a.max_exec and time.time() - t0 < a.wall:
        improved = False
        viol = next(v for v in outcome["violations"] if v["key"] == key)
        for cand in eng.shrink_candidates(plan, viol):
            if executions >= a.max_exec or time.time() - t0 > a.wall:
                break
            executions += 1
            try:
                o = eng.execute(cand)
            except Exception:  # noqa: BLE001
                continue
            if _has_key(o, key):
                plan, outcome, improved = cand, o, True
                break
    viol = next(v for v in outcome["violations"] if v["key"] == key)
    doc.update(
        {
            "plan": core.jsonable(plan),
            "violation": viol,
            "event_log_sha256": outcome["event_log_sha256"],
            "events": outcome["events"],
            "shrink": {"executions": executions, "wall_s": round(time.time() - t0, 2)},
        }
    )
    with open(a.out, "w") as f:
        json.dump(doc, f, indent=1)
    return 0


def cmd_digest(a) -> int:
    core.import_glotaran()
    with open(a.file) as f:
        doc = json.load(f)
    eng = engine_module(doc["engine"])
    print("DIGEST", eng.execute(doc["plan"])["event_log_sha256"])
    return 0


def cmd_replay(a) -> int:
    with open(a.file) as f:
        doc = json.load(f)
    if doc["violation"]["key"].endswith("nondeterministic-across-processes"):
        # the violation is a difference between fresh interpreters: replay = run the plan in several and compare
        digests = []
        for k in range(6):
            env = core.fixed_env({"PYTHONHASHSEED": "0" if k % 2 == 0 else "12345"})
            out = subprocess.run(
                [sys.executable, os.path.join(HERE, "runner.py"), "digest", a.file],
                env=env, cwd=VERIF, capture_output=True, text=True, timeout=900,
            ).stdout
            digests += [ln.split()[1] for ln in out.splitlines() if ln.startswith("DIGEST")]
            if len(set(digests)) > 1:
                print(f"replay: {len(digests)} fresh interpreters produced {len(set(digests))} different event logs")
                print(f"VIOLATION property={doc['property']} replay={os.path.abspath(a.file)}")
                return 1
        print(f"replay: {len(digests)} fresh interpreters agreed; nondeterminism NOT reproduced on this tree")
        return 0
    core.import_glotaran()
    eng = engine_module(doc["engine"])
    outcome = eng.execute(doc["plan"])
    key = doc["violation"]["key"]
    same_log = outcome["event_log_sha256"] == doc.get("event_log_sha256")
    if _has_key(outcome, key):
        v = next(v for v in outcome["violations"] if v["key"] == key)
        print(f"replay: reproduced {key}: {v['message'][:400]}")
        print(f"replay: event log digest {'identical' if same_log else 'DIFFERS from recorded'}")
        print(f"VIOLATION property={doc['property']} replay={os.path.abspath(a.file)}")
        return 1 if (same_log or a.lenient) else 2
    print(f"replay: violation {key} NOT reproduced on this tree (violations now: {[v['key'] for v in outcome['violations']]})")
    return 0


# ---------------------------------------------------------------------------
# coordinator
# ---------------------------------------------------------------------------


def _indices_arg(idx, out):
    """Run indices for a worker: inline when short, through a file when the list would not fit on a command line."""
    text = ",".join(map(str, idx))
    if len(text) < 20000:
        return text
    path = out + ".idx"
    with open(path, "w") as f:
        f.write(text)
    return "@" + path


def spawn_workers(
    prop, engine, tier, seed, indices, n_workers, wall, scratch, tag, hashseed=None, keep_events=False, events_for=(),
    extra_env=None,
):
    procs = []
    n_workers = max(1, min(n_workers, len(indices)))
    for w in range(n_workers):
        idx = indices[w::n_workers]
        out = os.path.join(scratch, f"{engine}-{tag}-{w}.jsonl")
        err = open(os.path.join(scratch, f"{engine}-{tag}-{w}.err"), "w")
        cmd = [
            sys.executable,
            os.path.join(HERE, "runner.py"),
            "worker",
            "--engine", engine,
            "--prop", prop,
            "--tier", tier,
            "--seed", str(seed),
            "--indices", _indices_arg(idx, out),
            "--out", out,
            "--wall", str(int(wall)),
        ]
        if keep_events:
            cmd.append("--keep-events")
        if events_for:
            cmd += ["--events-for", ",".join(map(str, events_for))]
        extra = dict(extra_env or {})
        if hashseed is not None:
            extra["PYTHONHASHSEED"] = str(hashseed)
        env = core.fixed_env(extra)
        p = subprocess.Popen(cmd, env=env, stdout=err, stderr=err, cwd=VERIF)
        procs.append({"p": p, "out": out, "err": err, "idx": list(idx), "cmd": cmd, "env": env, "respawns": 0})
    return procs


def _read_lines(path):
    out = []
    if os.path.exists(path):
        with open(path) as f:
            for ln in f:
                ln = ln.strip()
                if ln:
                    try:
                        out.append(json.loads(ln))
                    except ValueError:
                        pass  # a line cut off by the kill
    return out


def collect(procs, wall):
    deadline = time.time() + wall + 90
    lines, errors = [], []
    queue = list(procs)
    while queue:
        w = queue.pop(0)
        p, out, err = w["p"], w["out"], w["err"]
        try:
            rc = p.wait(timeout=max(1, deadline - time.time()))
        except subprocess.TimeoutExpired:
            p.kill()
            rc = -9
        err.close()
        got = _read_lines(out)
        started = [ln["started"] for ln in got if "started" in ln]
        finished = {ln["i"] for ln in got if "i" in ln}
        results = [ln for ln in got if "started" not in ln]
        lines += results
        if rc == 0:
            continue
        hung = [i for i in started if i not in finished]
        harness_failed = any("harness_error" in ln for ln in results)
        if hung and not harness_failed and w["respawns"] < 4 and time.time() < deadline:
            i = hung[-1]
            lines.append(
                {
                    "i": i,
                    "run_seed": None,
                    "discarded": "hang: the run did not return even to the watchdog (killed); most likely a dependency looping in C code",
                    "violations": [],
                    "wall": 0.0,
                }
            )
            rest = [j for j in w["idx"] if j not in finished and j != i]
            if rest:
                n = w["respawns"] + 1
                out2 = out.replace(".jsonl", f".r{n}.jsonl")
                err2 = open(err.name.replace(".err", f".r{n}.err"), "w")
                cmd = list(w["cmd"])
                cmd[cmd.index("--indices") + 1] = _indices_arg(rest, out2)
                cmd[cmd.index("--out") + 1] = out2
                p2 = subprocess.Popen(cmd, env=w["env"], stdout=err2, stderr=err2, cwd=VERIF)
                queue.append({"p": p2, "out": out2, "err": err2, "idx": rest, "cmd": cmd, "env": w["env"], "respawns": n})
            continue
        tail = ""
        try:
            with open(err.name) as f:
                tail = f.read()[-1500:]
        except OSError:
            pass
        errors.append(f"worker exit {rc} ({out}): {tail}")
    return lines, errors


def run_engine(prop, engine, tier, seed, runs, n_workers, wall, scratch):
    indices = list(range(runs))
    eng = engine_module(engine)
    n_fixed = len(fixed_plans_for(engine, tier))
    if n_fixed:
        indices = [FIXED_BASE + j for j in range(n_fixed)] + indices
    t0 = time.time()
    # determinism probe: same seeds, different worker count, different hash seed, fresh interpreters
    det_idx = indices[: min(2, n_fixed)] + indices[n_fixed : n_fixed + getattr(eng, "DETERMINISM_SAMPLE", DETERMINISM_SAMPLE)]
    main = spawn_workers(prop, engine, tier, seed, indices, n_workers, wall, scratch, "main", events_for=det_idx)
    half = (len(det_idx) + 1) // 2
    det = spawn_workers(
        prop, engine, tier, seed, det_idx[:half], 1, wall, scratch, "det", hashseed=12345, keep_events=True,
        extra_env=getattr(eng, "DET_PROBE_ENV", None),
    ) + spawn_workers(
        prop, engine, tier, seed, det_idx[half:], 1, wall, scratch, "det2", hashseed=777, keep_events=True,
        extra_env=getattr(eng, "DET_PROBE_ENV", None),
    )
    lines, errors = collect(main, wall)
    dlines, derrors = collect(det, wall)
    wall_s = time.time() - t0
    by_i = {ln["i"]: ln for ln in lines if "i" in ln}
    det_report = {"checked": 0, "mismatches": []}
    for ln in dlines:
        if "i" not in ln or ln["i"] not in by_i or "harness_error" in ln:
            continue
        a, b = by_i[ln["i"]], ln
        if "event_log_sha256" not in a or "event_log_sha256" not in b:
            continue
        det_report["checked"] += 1
        if a.get("violations") or b.get("violations"):
            # a run that already reports a violation stops at it; its log is not comparable and the violation speaks
            det_report.setdefault("skipped_violating_runs", []).append(ln["i"])
            if not a.get("violations"):
                a["violations"] = b["violations"]
                a["plan"] = a.get("plan") or b.get("plan")
                a["events"] = b.get("events")
                a["event_log_sha256"] = b["event_log_sha256"]
            continue
        if a["event_log_sha256"] != b["event_log_sha256"]:
            sut_fields = getattr(eng, "SUT_OUTPUT_FIELDS", None)
            ea, eb = a.get("events"), b.get("events")
            if sut_fields and ea is not None and eb is not None and _strip(ea, sut_fields) == _strip(eb, sut_fields):
                # every choice of the harness (ops, x, faults, sites) is identical in both fresh interpreters and only
                # numbers computed by the system under test differ: the system itself is nondeterministic
                first = next((x, y) for x, y in zip(ea, eb) if x != y)
                a.setdefault("violations", []).append(
                    {
                        "property": prop,
                        "key": f"{prop}/nondeterministic-across-processes",
                        "class": "determinism",
                        "message": "the same plan executed in two fresh interpreters (same seed, PYTHONHASHSEED 0 vs 12345) made "
                        f"identical harness choices but the system under test produced different numbers: {first[0]} vs {first[1]}",
                    }
                )
                a["plan"] = a.get("plan") or b.get("plan")
                det_report.setdefault("sut_nondeterminism", []).append(ln["i"])
            else:
                det_report["mismatches"].append(ln["i"])
                try:  # keep both logs for diagnosis
                    os.makedirs(os.path.join(VERIF, "replays"), exist_ok=True)
                    with open(os.path.join(VERIF, "replays", f"determinism-{prop}-{engine}-{seed}-{ln['i']}.json"), "w") as f:
                        json.dump({"plan": a.get("plan") or b.get("plan"), "main": ea, "probe": eb}, f, indent=1)
                except OSError:
                    pass
    return lines, errors + derrors, det_report, wall_s


def _strip(events, fields):
    def strip(o):
        if isinstance(o, dict):
            return {k: strip(v) for k, v in o.items() if k not in fields}
        if isinstance(o, list):
            return [strip(v) for v in o]
        return o

    return strip(events)


def summarise(prop, engine, lines, known):
    agg = {
        "engine": engine,
        "runs": 0,
        "discarded": 0,
        "discard_reasons": {},
        "faults_fired": {},
        "probes": {},
        "stats": {},
        "logical": {"ops": 0, "evaluations": 0, "steps": 0},
        "nontrivial_distinct": 0,
        "distinct_keys": 0,
        "violations": [],
        "known": {},
        "harness_errors": [],
        "truncated": 0,
        "samples": [],
        "cells": set(),
        "wall_run_total": 0.0,
    }
    dk_all, dk_nt = set(), set()
    for ln in lines:
        if "truncated_at" in ln:
            agg["truncated"] += 1
            continue
        if "harness_error" in ln:
            agg["harness_errors"].append({"i": ln["i"], "trace": ln["harness_error"][-2500:]})
            continue
        agg["runs"] += 1
        if "fixed_plan" in ln:
            agg["fixed_plans_run"] = agg.get("fixed_plans_run", 0) + 1
        agg["wall_run_total"] += ln.get("wall", 0.0)
        if ln.get("discarded"):
            agg["discarded"] += 1
            r = ln["discarded"][:70]
            agg["discard_reasons"][r] = agg["discard_reasons"].get(r, 0) + 1
            continue
        for field in ("faults", "probes", "stats"):
            tgt = agg["faults_fired" if field == "faults" else field]
            for k, v in ln.get(field, {}).items():
                tgt[k] = tgt.get(k, 0) + v
        for k, v in ln.get("logical", {}).items():
            agg["logical"][k] = agg["logical"].get(k, 0) + v
        dk_all.add(ln["dkey"])
        if ln.get("nontrivial"):
            dk_nt.add(ln["dkey"])
        for c in ln.get("cells", []):
            agg["cells"].add(c)
        for v in ln["violations"]:
            if v["key"] in known:
                agg["known"].setdefault(v["key"], 0)
                agg["known"][v["key"]] += 1
            else:
                agg["violations"].append({"i": ln["i"], "run_seed": ln["run_seed"], **v})
        if "plan" in ln and len(agg["samples"]) < 3 and not ln["violations"]:
            agg["samples"].append({"run_seed": ln["run_seed"], "plan": ln["plan"]})
    agg["distinct_keys"] = len(dk_all)
    agg["nontrivial_distinct"] = len(dk_nt)
    agg["cells"] = sorted(agg["cells"])
    return agg


def shrink_and_report(prop, engine, line, scratch):
    """Minimise the failing plan, confirm in a fresh interpreter, write the replay file."""
    v = next(x for x in line["violations"])
    os.makedirs(os.path.join(VERIF, "replays"), exist_ok=True)
    safe = v["key"].replace("/", "_")
    raw = os.path.join(scratch, f"raw-{engine}.json")
    final = os.path.join(VERIF, "replays", f"{prop}-{safe}-{line['run_seed']}.json")
    doc = {
        "property": prop,
        "engine": engine,
        "run_seed": line["run_seed"],
        "run_index": line["i"],
        "plan": line["plan"],
        "violation": v,
        "event_log_sha256": line["event_log_sha256"],
        "repo": core.REPO,
    }
    with open(raw, "w") as f:
        json.dump(doc, f)
    env = core.fixed_env()
    rc = 1
    if not v["key"].endswith("nondeterministic-across-processes"):
        rc = subprocess.call(
            [sys.executable, os.path.join(HERE, "runner.py"), "shrink", "--engine", engine, "--plan", raw, "--out", final,
             "--wall", "150", "--max-exec", "300"],
            env=env, cwd=VERIF, timeout=600,
        )
    if rc != 0 or not os.path.exists(final):
        # could not shrink: keep the raw plan as the replay file
        shutil.copy(raw, final)
    rc = subprocess.call(
        [sys.executable, os.path.join(HERE, "runner.py"), "replay", prop, final], env=env, cwd=VERIF,
        stdout=subprocess.DEVNULL, timeout=600,
    )
    return final, rc


def cmd_check(a) -> int:
    prop = a.prop
    if prop not in CHECKS:
        print(f"unknown property {prop}", file=sys.stderr)
        return 2
    tier = a.tier or os.environ.get("VERIF_TIER") or "quick"
    seed = a.seed if a.seed is not None else int(os.environ.get("VERIF_SEED", "0"))
    n_workers = a.workers or int(os.environ.get("VERIF_WORKERS", str(min(16, os.cpu_count() or 1))))
    scratch = os.path.join(core.scratch_root(), f"batch-{prop}-{os.getpid()}")
    shutil.rmtree(scratch, ignore_errors=True)
    os.makedirs(scratch, exist_ok=True)
    known = known_keys(prop)
    t0 = time.time()
    engines = [e for e in CHECKS[prop] if os.path.exists(os.path.join(HERE, f"{e}.py"))]
    if a.engine:
        engines = [a.engine]
    aggs, all_errors, det_reports = [], [], {}
    violation_line = None
    try:
        for engine in engines:
            runs, wall = BUDGET[engine][tier]
            if a.runs:
                runs = a.runs
            lines, errors, det, wall_s = run_engine(prop, engine, tier, seed, runs, n_workers, wall, scratch)
            agg = summarise(prop, engine, lines, known)
            agg["wall_s"] = round(wall_s, 2)
            aggs.append(agg)
            det_reports[engine] = det
            all_errors += [f"{engine} run {h['i']}: {h['trace']}" for h in agg["harness_errors"]] + errors
            if det["mismatches"]:
                all_errors.append(f"{engine}: determinism self-test failed for run indices {det['mismatches']}")
            if agg["violations"] and violation_line is None:
                first = min(agg["violations"], key=lambda v: v["i"])
                full = next(ln for ln in lines if ln.get("i") == first["i"] and ln.get("violations"))
                full = dict(full)
                full["violations"] = [v for v in full["violations"] if v["key"] not in known]
                violation_line = (engine, full)
        wall_total = time.time() - t0
        replay_path = None
        if violation_line and not all_errors:
            replay_path, rc = shrink_and_report(prop, violation_line[0], violation_line[1], scratch)
        write_evidence(prop, tier, seed, aggs, det_reports, wall_total, n_workers, bool(violation_line))
        for f in core.load_known_findings():
            if f.get("property") == prop and f.get("status") == "open":
                print(f"KNOWN-FINDING: property={prop} {f['what']}")
        for agg in aggs:
            print(
                f"[{prop}/{agg['engine']}] runs={agg['runs']} discarded={agg['discarded']} "
                f"distinct_nontrivial={agg['nontrivial_distinct']} faults={sum(agg['faults_fired'].values())} "
                f"violations={len(agg['violations'])} wall={agg['wall_s']}s determinism={det_reports[agg['engine']]}"
            )
        if all_errors:
            for e in all_errors[:5]:
                print(f"HARNESS-ERROR {e[:3000]}")
            return 2
        if violation_line:
            v = violation_line[1]["violations"][0]
            print(f"violation: {v['key']}: {v['message'][:600]}")
            print(f"VIOLATION property={prop} replay={replay_path}")
            return 1
        return 0
    finally:
        if not a.keep_scratch:
            shutil.rmtree(scratch, ignore_errors=True)


def cmd_selftest(a) -> int:
    """Large-sample determinism self-test: every run of a batch twice, in different fresh interpreters,
    under a different worker count and PYTHONHASHSEED; all event-log digests must agree."""
    prop = a.prop
    tier = a.tier or "quick"
    seed = a.seed if a.seed is not None else int(os.environ.get("VERIF_SEED", "0"))
    scratch = os.path.join(core.scratch_root(), f"selftest-{prop}-{os.getpid()}")
    shutil.rmtree(scratch, ignore_errors=True)
    os.makedirs(scratch)
    bad = 0
    try:
        for engine in CHECKS[prop]:
            runs, wall = BUDGET[engine][tier]
            runs = a.runs or runs
            eng = engine_module(engine)
            indices = list(range(runs))
            indices = [FIXED_BASE + j for j in range(len(fixed_plans_for(engine, tier)))] + indices
            pa = spawn_workers(prop, engine, tier, seed, indices, 16, wall, scratch, "A", hashseed=0)
            pb = spawn_workers(prop, engine, tier, seed, indices, 5, wall, scratch, "B", hashseed=12345)
            la, ea = collect(pa, wall)
            lb, eb = collect(pb, wall)
            da = {ln["i"]: ln.get("event_log_sha256") for ln in la if "i" in ln}
            db = {ln["i"]: ln.get("event_log_sha256") for ln in lb if "i" in ln}
            common = sorted(set(da) & set(db))
            diff = [i for i in common if da[i] != db[i]]
            bad += len(diff) + len(ea) + len(eb)
            print(f"[selftest {prop}/{engine}] runs compared={len(common)} mismatching={diff[:10]} errors={len(ea) + len(eb)}")
            for e in (ea + eb)[:3]:
                print("  ", e[:500])
    finally:
        shutil.rmtree(scratch, ignore_errors=True)
    return 0 if bad == 0 else 2


def write_evidence(prop, tier, seed, aggs, det_reports, wall_total, n_workers, violated):
    os.makedirs(os.path.join(VERIF, "evidence"), exist_ok=True)
    runs = sum(a["runs"] for a in aggs)
    eff = sum(a["runs"] - a["discarded"] for a in aggs)
    nontrivial = sum(a["nontrivial_distinct"] for a in aggs)
    samples = [s for a in aggs for s in a["samples"]][:4]
    engines = {}
    for a in aggs:
        mod = engine_module(a["engine"]) if a["engine"] != "_" else None
        engines[a["engine"]] = {
            "runs": a["runs"],
            "discarded_plans": a["discarded"],
            "discard_reasons": a["discard_reasons"],
            "distinct_cases": a["distinct_keys"],
            "distinct_nontrivial": a["nontrivial_distinct"],
            "fault_kinds_fired": a["faults_fired"],
            "probes": a["probes"],
            "stats": a["stats"],
            "logical_time": a["logical"],
            "distinct_cells": len(a["cells"]),
            "truncated_workers": a["truncated"],
            "fixed_plans_run": a.get("fixed_plans_run", 0),
            "fixed_plans_total": len(fixed_plans_for(a["engine"], tier)),
            "known_findings_hit": a["known"],
            "wall_s": a["wall_s"],
            "runs_per_hour": round(a["runs"] / max(a["wall_s"], 1e-6) * 3600),
            "determinism_selftest": det_reports.get(a["engine"]),
            "real_vs_stub": getattr(mod, "REAL_VS_STUB", None) if mod else None,
        }
    rule = " | ".join(getattr(engine_module(a["engine"]), "RULE", a["engine"]) for a in aggs)
    doc = {
        "property_id": prop,
        "tier": tier,
        "seed": seed,
        "level": LEVEL[prop],
        "wall_s": round(wall_total, 2),
        "violations": sum(len(a["violations"]) for a in aggs),
        "coverage": {
            "evaluations": runs,
            "effective_runs": eff,
            "distinct_nontrivial": nontrivial,
            "rule": rule,
            "samples": samples,
            "exhaustive": False,
            "workers": n_workers,
            "seeds_per_hour": round(runs / max(wall_total, 1e-6) * 3600),
            "engines": engines,
        },
        "assumptions": [
            "numpy/scipy/LAPACK/numba runtime and asteval are trusted as given (pinned versions of this image)",
            "a clean batch is sampled evidence, not proof",
            f"glotaran imported from {core.REPO} (current working tree)",
        ],
    }
    with open(os.path.join(VERIF, "evidence", f"{prop}.json"), "w") as f:
        json.dump(core.jsonable(doc), f, indent=1)


def main(argv=None) -> int:
    core.ensure_env()
    ap = argparse.ArgumentParser()
    sub = ap.add_subparsers(dest="cmd", required=True)
    c = sub.add_parser("check")
    c.add_argument("prop")
    c.add_argument("--tier", choices=["quick", "thorough"])
    c.add_argument("--seed", type=int)
    c.add_argument("--runs", type=int)
    c.add_argument("--workers", type=int)
    c.add_argument("--engine")
    c.add_argument("--keep-scratch", action="store_true")
    w = sub.add_parser("worker")
    for name in ("engine", "prop", "tier", "indices", "out"):
        w.add_argument(f"--{name}", required=True)
    w.add_argument("--seed", type=int, required=True)
    w.add_argument("--wall", type=int, default=0)
    w.add_argument("--keep-events", action="store_true")
    w.add_argument("--events-for", default="")
    s = sub.add_parser("shrink")
    s.add_argument("--engine", required=True)
    s.add_argument("--plan", required=True)
    s.add_argument("--out", required=True)
    s.add_argument("--wall", type=int, default=120)
    s.add_argument("--max-exec", type=int, default=300)
    r = sub.add_parser("replay")
    r.add_argument("prop")
    r.add_argument("file")
    r.add_argument("--lenient", action="store_true")
    dg = sub.add_parser("digest")
    dg.add_argument("file")
    st = sub.add_parser("selftest")
    st.add_argument("prop")
    st.add_argument("--tier", choices=["quick", "thorough"])
    st.add_argument("--seed", type=int)
    st.add_argument("--runs", type=int)
    a = ap.parse_args(argv)
    return {"check": cmd_check, "worker": cmd_worker, "shrink": cmd_shrink, "replay": cmd_replay, "digest": cmd_digest, "selftest": cmd_selftest}[
        a.cmd
    ](a)


if __name__ == "__main__":
    sys.exit(main())
