"""C19 — plugin registry: first registration wins, every plugin stays reachable.

System: the real functions of ``glotaran.plugin_system`` on sandboxed registries.
Reference model: two dicts (short name -> plugin, full name -> plugin).  One run is
a history of register / set_plugin / lookup / listing / dispatch operations over a
small alphabet of names and fake plugin classes; after every operation the whole
registry is refined against the model.  Fixed plans enumerate all short sequences.
See DESIGN.md §4.19.
"""

from __future__ import annotations

import itertools
import os
import random
import shutil
import types
import warnings

from sim import core

PROP = "C19"
NAME = "regsim"
RULE = (
    "regsim: one run = 3-40 ops (REG with 1-3 format names, SET, GET, KNOWN, IS_KNOWN, DISPATCH, REG with a constructor that "
    "raises) on one of 5 registry front-ends (megacomplex, data_io, project_io, base functions with classes / with instances); "
    "fixed plans enumerate every sequence up to length 3 (thorough: 4) over a reduced alphabet; distinct = digest of the abstract "
    "registry states visited; non-trivial = history contains a conflicting registration (same short name, different plugin) AND at "
    "least one lookup or dispatch after it"
)
REAL_VS_STUB = {
    "real": "base_registry, megacomplex/data_io/project_io registration modules, io_plugin_utils.infer_file_format, load_*/save_* "
    "convenience functions",
    "stub": "plugins are fake classes in fake modules whose methods record calls; registries are sandboxed with "
    "glotaran.testing.plugin_system.monkeypatch_plugin_registry",
}

KINDS = ["megacomplex", "data_io", "project_io", "base_class", "base_inst"]
SHORTS = ["fmt", "alt", "yaml", "yml", "a.b"]
CASED = ["DAT", "Fmt"]  # registries are case-sensitive; so must format inference be
CLASSES = [("vp_a", "P1"), ("vp_a", "P2"), ("vp_b", "P1"), ("vp_b", "P3"), ("vp_c.sub", "P1")]


# ---------------------------------------------------------------------------
# generation
# ---------------------------------------------------------------------------


def gen_op(rng: random.Random, kind: str) -> dict:
    r = rng.random()
    inst = kind in ("data_io", "project_io", "base_inst")
    if r < 0.34:
        nkeys = rng.choice([1, 1, 2, 3]) if inst else 1
        keys = [
            (rng.choice(SHORTS[:4]) if rng.random() < 0.85 else rng.choice(CASED)) if rng.random() < 0.93 else "a.b"
            for _ in range(nkeys)
        ]
        if rng.random() < 0.06:
            keys[rng.randrange(nkeys)] = "@full"
        op = {"op": "REG", "keys": keys, "cls": rng.randrange(len(CLASSES))}
        if inst and nkeys == 1 and rng.random() < 0.15:
            op["prebuilt"] = True  # the decorator object was created earlier (outside the registry sandbox)
        if inst and rng.random() < 0.12:
            op["ctor_raises_at"] = rng.randrange(nkeys)
        return op
    if r < 0.50:
        target = rng.choice(["known", "known", "known", "plain", "plain", "unknown", "short_as_full"])
        return {
            "op": "SET",
            "key": rng.choice(SHORTS) if rng.random() < 0.85 else "@full",
            "target": target,
            "cls": rng.randrange(len(CLASSES)),
            "fmt": rng.choice(SHORTS[:4]),
        }
    if r < 0.72:
        return {
            "op": "GET",
            "by": rng.choice(["short", "short", "full", "plain", "unknown"]),
            "key": rng.choice(SHORTS[:4] + CASED),
            "cls": rng.randrange(len(CLASSES)),
            "fmt": rng.choice(SHORTS[:4]),
        }
    if r < 0.80:
        return {"op": "KNOWN", "full_names": rng.random() < 0.5}
    if r < 0.86:
        return {"op": "IS_KNOWN", "key": rng.choice(SHORTS[:4] + ["nope"])}
    if r < 0.89:
        return {
            "op": "METHOD",
            "fn": rng.choice(["load", "save"]),
            "what": rng.choice(["dataset", "model", "parameters", "scheme", "result"]),
            "key": rng.choice(SHORTS[:4] + CASED + ["nope"]),
        }
    return {
        "op": "DISPATCH",
        "fn": rng.choice(["load", "save"]),
        "what": rng.choice(["dataset", "model", "parameters", "scheme", "result"]),
        "ext": rng.choice(["fmt", "alt", "yml", "yaml", "zzz", "DAT", "Fmt", "YML"]),
        "explicit": rng.choice([None, None, None, "fmt", "alt", "yaml", "yml", "nope", "DAT"]),
    }


def generate(rng: random.Random, tier: str) -> dict:
    kind = rng.choice(KINDS)
    ops = [gen_op(rng, kind) for _ in range(rng.randint(3, 40))]
    return {"engine": NAME, "kind": "history", "registry": kind, "ops": ops}


def reduced_alphabet(kind: str) -> list[dict]:
    inst = kind in ("data_io", "project_io", "base_inst")
    ops = [{"op": "REG", "keys": ["fmt"], "cls": c} for c in (0, 1, 2)]
    if inst:
        ops.append({"op": "REG", "keys": ["fmt", "alt"], "cls": 0})
        ops.append({"op": "REG", "keys": ["alt", "fmt"], "cls": 1, "ctor_raises_at": 1})
    else:
        ops.append({"op": "REG", "keys": ["alt"], "cls": 0})
    ops.append({"op": "REG", "keys": ["a.b"], "cls": 0})
    ops.append({"op": "REG", "keys": ["@full"], "cls": 1})
    ops.append({"op": "SET", "key": "@full", "target": "known", "cls": 1, "fmt": "fmt"})
    for c in (0, 1, 2):
        ops.append({"op": "SET", "key": "fmt", "target": "known", "cls": c, "fmt": "fmt"})
    ops.append({"op": "SET", "key": "fmt", "target": "unknown", "cls": 0, "fmt": "fmt"})
    ops.append({"op": "GET", "by": "short", "key": "fmt", "cls": 0, "fmt": "fmt"})
    ops.append({"op": "GET", "by": "full", "key": "fmt", "cls": 1, "fmt": "fmt"})
    ops.append({"op": "SET", "key": "fmt", "target": "plain", "cls": 1, "fmt": "fmt"})
    ops.append({"op": "GET", "by": "plain", "key": "fmt", "cls": 2, "fmt": "fmt"})
    return ops


def fixed_plans(tier: str) -> list[dict]:
    plans = []
    maxlen = 3 if tier == "quick" else 4
    for kind in KINDS:
        if tier == "quick":
            plans.append({"engine": NAME, "kind": "sweep", "registry": kind, "maxlen": maxlen, "first": None})
        else:
            for first in range(len(reduced_alphabet(kind))):
                plans.append({"engine": NAME, "kind": "sweep", "registry": kind, "maxlen": maxlen, "first": first})
    return plans


# ---------------------------------------------------------------------------
# fake plugins
# ---------------------------------------------------------------------------


class Calls:
    def __init__(self):
        self.log = []


def make_classes(kind: str, calls: Calls, ctor_fault: dict):
    """Five fresh fake plugin classes for one run."""
    from glotaran.io.interface import DataIoInterface
    from glotaran.io.interface import ProjectIoInterface

    classes = []
    for module, name in CLASSES:
        if kind in ("megacomplex", "base_class"):
            cls = type(name, (object,), {"__module__": module})
            classes.append(cls)
            continue
        base = DataIoInterface if kind in ("data_io", "base_inst") else ProjectIoInterface
        ns = {"__module__": module, "instances": None}

        def __init__(self, format_name, _base=base):
            if ctor_fault.get("key") == format_name and ctor_fault.get("armed"):
                ctor_fault["fired"] = True
                raise core.InjectedFault(f"constructor for format {format_name!r}")
            _base.__init__(self, format_name)
            type(self).instances.append(self)

        ns["__init__"] = __init__

        def recorder(method):
            def fn(self, *a, **kw):
                calls.log.append((self, method))
                if method == "load_dataset":
                    import numpy as np
                    import xarray as xr

                    return xr.DataArray(np.zeros((2, 2)), dims=("time", "spectral"))
                if method.startswith("load_"):
                    return types.SimpleNamespace(source_path=None)
                if method == "save_result":
                    return []
                return None

            fn.__name__ = method
            return fn

        methods = (
            ["load_dataset", "save_dataset"]
            if base is DataIoInterface
            else [f"{d}_{w}" for d in ("load", "save") for w in ("model", "parameters", "scheme", "result")]
        )
        for mname in methods:
            ns[mname] = recorder(mname)
            ns[mname].__qualname__ = f"{name}.{mname}"
        cls = type(name, (base,), ns)
        cls.instances = []
        classes.append(cls)
    return classes


def full_name(cls) -> str:
    return f"{cls.__module__}.{cls.__name__}"


# ---------------------------------------------------------------------------
# front-ends: the same five verbs for every registry kind
# ---------------------------------------------------------------------------


class FrontEnd:
    def __init__(self, kind: str):
        import glotaran.plugin_system.base_registry as br
        import glotaran.plugin_system.data_io_registration as dio
        import glotaran.plugin_system.megacomplex_registration as mreg
        import glotaran.plugin_system.project_io_registration as pio

        self.kind = kind
        self.br = br
        self.raw: dict = {}
        if kind == "megacomplex":
            self.register = lambda keys, cls: mreg.register_megacomplex(keys[0], cls)
            self.set = mreg.set_megacomplex_plugin
            self.get = mreg.get_megacomplex
            self.known = lambda full: mreg.known_megacomplex_names(full_names=full)
            self.is_known = mreg.is_known_megacomplex
        elif kind == "data_io":
            self.register = lambda keys, cls: dio.register_data_io(keys if len(keys) > 1 else keys[0])(cls)
            self.set = dio.set_data_plugin
            self.get = dio.get_data_io
            self.known = lambda full: dio.known_data_formats(full_names=full)
            self.is_known = dio.is_known_data_format
        elif kind == "project_io":
            self.register = lambda keys, cls: pio.register_project_io(keys if len(keys) > 1 else keys[0])(cls)
            self.set = pio.set_project_plugin
            self.get = pio.get_project_io
            self.known = lambda full: pio.known_project_formats(full_names=full)
            self.is_known = pio.is_known_project_format
        else:
            raw = self.raw
            if kind == "base_class":
                self.register = lambda keys, cls: br.add_plugin_to_registry(keys[0], cls, raw, "set_x")
            else:
                self.register = lambda keys, cls: br.add_instantiated_plugin_to_registry(
                    keys if len(keys) > 1 else keys[0], cls, raw, "set_x"
                )
            self.set = lambda key, full: br.set_plugin(key, full, raw)
            self.get = lambda name: br.get_plugin_from_registry(
                name, raw, f"Unknown plugin {name!r}. Known: {br.registered_plugins(raw, full_names=True)}"
            )
            self.known = lambda full: br.registered_plugins(raw, full_names=full)
            self.is_known = lambda name: br.is_registered_plugin(name, raw)
        self.dio, self.pio = dio, pio


# ---------------------------------------------------------------------------
# reference model
# ---------------------------------------------------------------------------


class Model:
    """short / full name -> ('exact', obj) | ('loose', cls, fmt)."""

    def __init__(self, instantiated: bool):
        self.inst = instantiated
        self.short: dict = {}
        self.full: dict = {}

    def state_digest(self, classes) -> str:
        idx = {c: i for i, c in enumerate(classes)}

        def ab(v):
            if v[0] == "exact":
                o = v[1]
                return (idx[o], None) if isinstance(o, type) else (idx[type(o)], o.format)
            return (idx[v[1]], v[2] if v[0] == "loose" else "*")

        return core.digest([sorted((k, ab(v)) for k, v in self.short.items()), sorted(self.full)])

    @staticmethod
    def matches(v, plugin) -> bool:
        if v[0] == "exact":
            return plugin is v[1]
        if v[0] == "anyfmt":
            return type(plugin) is v[1]
        return type(plugin) is v[1] and getattr(plugin, "format", None) == v[2]

    @staticmethod
    def fullname_of(v) -> str:
        if v[0] == "exact":
            o = v[1]
            return full_name(o if isinstance(o, type) else type(o))
        return full_name(v[1])  # loose / anyfmt


# ---------------------------------------------------------------------------
# execution
# ---------------------------------------------------------------------------


class Run:
    def __init__(self, plan):
        self.plan = plan
        self.rec = core.Recorder(PROP)
        self.sandbox = os.path.join(core.scratch_root(), "regsim", str(os.getpid()))
        self.states = set()
        self.conflict_seen = False
        self.lookup_after_conflict = False

    def execute(self):
        from glotaran.testing.plugin_system import monkeypatch_plugin_registry

        os.makedirs(self.sandbox, exist_ok=True)
        for ext in ("fmt", "alt", "yml", "yaml", "zzz", "DAT", "Fmt", "YML"):
            with open(os.path.join(self.sandbox, f"x.{ext}"), "w") as f:
                f.write("x")
        # decorators created while the *real* registry is current; applying them later must register in whatever
        # registry is current then
        import glotaran.plugin_system.data_io_registration as _dio
        import glotaran.plugin_system.project_io_registration as _pio

        self.prebuilt = {
            "data_io": {k: _dio.register_data_io(k) for k in SHORTS[:4] + CASED},
            "project_io": {k: _pio.register_project_io(k) for k in SHORTS[:4] + CASED},
        }
        import glotaran.plugin_system.base_registry as _br

        real = getattr(_br, "__PluginRegistry")
        before = {name: dict(getattr(real, name)) for name in ("megacomplex", "data_io", "project_io")}
        leave_by_exception = self.plan["kind"] == "history" and len(self.plan["ops"]) % 3 == 0
        try:
            try:
                with monkeypatch_plugin_registry(
                    test_megacomplex={}, test_data_io={}, test_project_io={}, create_new_registry=True
                ):
                    if self.plan["kind"] == "sweep":
                        return self.run_sweep()
                    self.run_ops(self.plan["registry"], self.plan["ops"])
                    if leave_by_exception:
                        self.rec.probe("sandbox_left_by_exception")
                        raise core.InjectedFault("leaving the registry sandbox by an exception")
            except core.InjectedFault:
                pass
            finally:
                # the process-wide registries must be exactly what they were (same names, same plugin objects)
                for name, snap in before.items():
                    now = getattr(real, name)
                    if list(now.keys()) != list(snap.keys()) or any(now[k] is not snap[k] for k in snap):
                        leaked = sorted(set(now) - set(snap))
                        lost = sorted(set(snap) - set(now))
                        self.rec.violate(
                            "C19/sandbox-leak",
                            "refinement",
                            f"after the sandboxed run the real {name} registry differs: leaked {leaked[:5]}, lost {lost[:5]} "
                            f"(left by exception: {leave_by_exception})",
                        )
                        for k in list(now.keys()):
                            now.pop(k)
                        now.update(snap)  # repair, so that later runs of this worker are not affected
                        break
        finally:
            shutil.rmtree(self.sandbox, ignore_errors=True)
        rec = self.rec
        rec.stat("abstract_states", len(self.states))
        return rec.outcome(core.digest(sorted(self.states)), self.conflict_seen and self.lookup_after_conflict)

    def run_sweep(self):
        from glotaran.testing.plugin_system import monkeypatch_plugin_registry

        rec, plan = self.rec, self.plan
        kind = plan["registry"]
        alpha = reduced_alphabet(kind)
        n = 0
        firsts = range(len(alpha)) if plan["first"] is None else [plan["first"]]
        for length in range(1, plan["maxlen"] + 1):
            for first in firsts:
                for rest in itertools.product(range(len(alpha)), repeat=length - 1):
                    seq = [alpha[first], *(alpha[i] for i in rest)]
                    with monkeypatch_plugin_registry(
                        test_megacomplex={}, test_data_io={}, test_project_io={}, create_new_registry=True
                    ):
                        self.run_ops(kind, seq, log=False)
                    n += 1
                    if rec.violations:
                        rec.event(op="sweep", kind=kind, sequences=n, failing=seq)
                        rec.violations[0]["message"] += f" | sequence={core.canon(seq)}"
                        return rec.outcome(core.digest(["sweep", kind, plan["maxlen"], plan["first"]]), True)
        rec.stat("sweep_sequences", n)
        rec.stat("abstract_states", len(self.states))
        rec.event(op="sweep", kind=kind, sequences=n, states=len(self.states))
        rec.logical["ops"] += n
        return rec.outcome(core.digest(["sweep", kind, plan["maxlen"], plan["first"]]), True)

    # ------------------------------------------------------------------
    def run_ops(self, kind, ops, log=True):
        rec = self.rec
        calls = Calls()
        ctor_fault: dict = {}
        classes = make_classes(kind, calls, ctor_fault)
        fe = FrontEnd(kind)
        inst = kind in ("data_io", "project_io", "base_inst")
        model = Model(inst)
        br = fe.br
        for op in ops:
            rec.logical["ops"] += 1
            name = op["op"]
            with warnings.catch_warnings(record=True) as caught:
                warnings.simplefilter("always")
                try:
                    msg = self.step(kind, op, fe, model, classes, calls, ctor_fault)
                except core.HarnessError:
                    raise
                except Exception as e:  # noqa: BLE001
                    msg = f"{name} raised unexpected {type(e).__name__}: {e}"
                    rec.violate("C19/unexpected-exception", "refinement", f"{msg} (op={op}, registry={kind})")
                    return
            over = [w for w in caught if issubclass(w.category, br.PluginOverwriteWarning)]
            expect_w = self.expected_warnings
            if msg is None and len(over) != expect_w:
                msg = f"expected {expect_w} PluginOverwriteWarning, got {len(over)}"
                key = "C19/warning"
            else:
                key = self.vkey
            if msg is None:
                msg = self.refine(fe, model)
                key = "C19/refinement"
            if log:
                rec.event(op=name, args={k: v for k, v in op.items() if k != "op"}, state=model.state_digest(classes)[:12])
            self.states.add(model.state_digest(classes)[:16])
            if msg is not None:
                rec.violate(key, "refinement", f"{msg} (op={op}, registry={kind})")
                return

    def step(self, kind, op, fe, model, classes, calls, ctor_fault):
        """Execute one op against system and model; return a complaint or None."""
        self.expected_warnings = 0
        self.vkey = "C19/outcome"
        name = op["op"]
        inst = model.inst
        if name == "REG":
            cls = classes[op["cls"]]
            known_full = sorted(model.full)
            keys = [
                (known_full[op["cls"] % len(known_full)] if known_full else "x.y") if k == "@full" else k
                for k in op["keys"]
            ]
            ctor_fault.clear()
            raise_at = op.get("ctor_raises_at")
            if inst and raise_at is not None and raise_at < len(keys):
                ctor_fault.update({"key": keys[raise_at], "armed": True, "index": raise_at})
            before_instances = len(cls.instances) if inst else 0
            err = None
            try:
                pre = self.prebuilt.get(kind, {}) if op.get("prebuilt") and len(keys) == 1 else {}
                if keys[0] in pre:
                    pre[keys[0]](cls)
                    self.rec.probe("decorator_built_outside_sandbox")
                else:
                    fe.register(keys, cls)
            except Exception as e:  # noqa: BLE001
                err = e
            ctor_fault["armed"] = False
            # --- model
            expect_err = None
            new_instances = cls.instances[before_instances:] if inst else []
            for i, key in enumerate(keys):
                if inst and raise_at is not None and raise_at < len(keys) and key == keys[raise_at]:
                    # the constructor raises for the first occurrence of this format name
                    expect_err = core.InjectedFault
                    self.rec.fault("ctor_raises")
                    break
                if "." in key:
                    expect_err = ValueError
                    break
                if inst:
                    made = [o for o in new_instances if o.format == key]
                    n_prev = sum(1 for k in keys[:i] if k == key)
                    if len(made) <= n_prev:
                        return f"REG: no instance of {full_name(cls)} was created for format {key!r}"
                    plugin = ("exact", made[n_prev])
                    model.full[f"{full_name(cls)}_{key}"] = ("loose", cls, key)
                else:
                    plugin = ("exact", cls)
                    model.full[full_name(cls)] = plugin
                if key not in model.short:
                    model.short[key] = plugin
                else:
                    # the newcomer lost the short name: it must be reachable under full_plugin_name(newcomer),
                    # the name the PluginOverwriteWarning tells the user to pass to set_*_plugin
                    model.full[full_name(cls)] = ("anyfmt", cls) if inst else plugin
                    if Model.fullname_of(model.short[key]) != full_name(cls):
                        self.expected_warnings += 1
                        self.conflict_seen = True
                        self.rec.probe("conflicting_registration")
                    else:
                        self.rec.probe("same_class_twice")
            if expect_err is None and err is not None:
                return f"REG raised {type(err).__name__}: {err}"
            if expect_err is not None and (err is None or not isinstance(err, expect_err)):
                return f"REG: expected {expect_err.__name__}, got {type(err).__name__ if err else 'no error'}"
            return None
        if name == "SET":
            key = op["key"]
            cls = classes[op["cls"]]
            if key == "@full":
                # a dotted name that IS a key of the registry (some plugin's full name) used as the short name
                known_full = sorted(model.full)
                key = known_full[op["cls"] % len(known_full)] if known_full else "x.y"
            if op["target"] == "known":
                target = f"{full_name(cls)}_{op['fmt']}" if inst else full_name(cls)
            elif op["target"] == "plain":
                target = full_name(cls)
                if inst and target not in model.full:
                    # without an earlier conflict the statement does not say whether the identifier-less name exists
                    return None
            elif op["target"] == "unknown":
                target = "nope.Missing"
            else:
                target = op["fmt"]  # a short name where a full name is required
            err = None
            try:
                fe.set(key, target)
            except Exception as e:  # noqa: BLE001
                err = e
            if "." in key:
                if not isinstance(err, ValueError):
                    return f"SET with '.' in the short name: expected ValueError, got {err!r}"
                return None
            if target not in model.full:
                if not isinstance(err, ValueError):
                    return f"SET to unknown full name {target!r}: expected ValueError, got {err!r}"
                missing = [f for f in model.full if f not in str(err)]
                if missing:
                    self.vkey = "C19/error-message"
                    return f"SET error does not name the known full names {missing}: {err}"
                return None
            if err is not None:
                return f"SET({key!r}, {target!r}) raised {type(err).__name__}: {err}"
            if key in model.short and Model.fullname_of(model.short[key]) != Model.fullname_of(model.full[target]):
                self.rec.probe("set_after_conflict" if self.conflict_seen else "set_repoints")
            model.short[key] = model.full[target]
            return None
        if name == "GET":
            cls = classes[op["cls"]]
            if op["by"] == "short":
                lookup = op["key"]
                want = model.short.get(lookup)
            elif op["by"] == "full":
                lookup = f"{full_name(cls)}_{op['fmt']}" if inst else full_name(cls)
                want = model.full.get(lookup)
            elif op["by"] == "plain":
                lookup = full_name(cls)
                want = model.full.get(lookup)
                if inst and want is None:
                    return None  # not fixed by the statement (see SET)
            else:
                lookup, want = "no_such_name", None
            err = got = None
            try:
                got = fe.get(lookup)
            except Exception as e:  # noqa: BLE001
                err = e
            if self.conflict_seen:
                self.lookup_after_conflict = True
            if want is None:
                if not isinstance(err, ValueError):
                    return f"GET({lookup!r}) of an unknown name: expected ValueError, got {got!r} / {err!r}"
                missing = [s for s in model.short if repr(s) not in str(err) and s not in str(err)]
                if missing:
                    self.vkey = "C19/error-message"
                    return f"GET error does not name the known names {missing}: {err}"
                return None
            if err is not None:
                return f"GET({lookup!r}) raised {type(err).__name__}: {err}"
            if not Model.matches(want, got):
                self.vkey = "C19/resolution"
                return f"GET({lookup!r}) returned {self.describe(got)}, model says {self.describe_model(want)}"
            return None
        if name == "KNOWN":
            got = fe.known(op["full_names"])
            if not op["full_names"]:
                if list(got) != sorted(model.short):
                    return f"known names {got} != {sorted(model.short)}"
            else:
                missing = [k for k in list(model.short) + list(model.full) if k not in got]
                if missing:
                    return f"known names (full) {got} lack {missing}"
            return None
        if name == "IS_KNOWN":
            got = fe.is_known(op["key"])
            if bool(got) != (op["key"] in model.short):
                return f"is_known({op['key']!r}) = {got}, model says {op['key'] in model.short}"
            return None
        if name == "METHOD":
            if kind not in ("data_io", "project_io"):
                return None
            self.vkey = "C19/dispatch"
            what = "dataset" if kind == "data_io" else (op["what"] if op["what"] != "dataset" else "model")
            mname = f"{op['fn']}_{what}"
            err = got = None
            try:
                if kind == "data_io":
                    got = (fe.dio.get_dataloader if op["fn"] == "load" else fe.dio.get_datasaver)(op["key"])
                else:
                    got = fe.pio.get_project_io_method(op["key"], mname)
            except Exception as e:  # noqa: BLE001
                err = e
            want = model.short.get(op["key"])
            if want is None:
                if not isinstance(err, ValueError):
                    return f"method lookup for unknown format {op['key']!r}: expected ValueError, got {got!r} / {err!r}"
                return None
            if err is not None:
                return f"method lookup {mname} for {op['key']!r} raised {type(err).__name__}: {err}"
            owner = getattr(got, "__self__", None)
            if owner is None or not Model.matches(want, owner) or getattr(got, "__name__", mname) != mname:
                return (
                    f"method lookup {mname} for {op['key']!r} returned {got!r} of {self.describe(owner)}, "
                    f"model resolves the format to {self.describe_model(want)}"
                )
            return None
        if name == "DISPATCH":
            return self.dispatch(kind, op, fe, model, calls)
        raise core.HarnessError(name)

    def dispatch(self, kind, op, fe, model, calls):
        if kind not in ("data_io", "project_io"):
            return None
        import numpy as np
        import xarray as xr

        what = "dataset" if kind == "data_io" else (op["what"] if op["what"] != "dataset" else "model")
        fn_name = f"{op['fn']}_{what}"
        mod = fe.dio if kind == "data_io" else fe.pio
        fn = getattr(mod, fn_name)
        path = os.path.join(self.sandbox, f"x.{op['ext']}")
        explicit = op["explicit"]
        fmt = explicit or ("yaml" if op["ext"] == "yml" else op["ext"])
        want = model.short.get(fmt)
        calls.log.clear()
        err = None
        try:
            if op["fn"] == "load":
                fn(path, format_name=explicit)
            else:
                if what == "dataset":
                    obj = xr.DataArray(np.zeros((2, 2)), dims=("time", "spectral")).to_dataset(name="data")
                else:
                    obj = types.SimpleNamespace(source_path=None)
                fn(obj, path, format_name=explicit, allow_overwrite=True)
        except Exception as e:  # noqa: BLE001
            err = e
        if self.conflict_seen:
            self.lookup_after_conflict = True
        self.vkey = "C19/dispatch"
        self.rec.probe("dispatch_inferred" if explicit is None else "dispatch_explicit")
        if want is None:
            if not isinstance(err, ValueError):
                return f"{fn_name}(format {fmt!r} unknown): expected ValueError, got {err!r} calls={len(calls.log)}"
            if calls.log:
                return f"{fn_name}: a plugin was invoked although format {fmt!r} is unknown"
            return None
        if err is not None:
            return f"{fn_name}({path!r}, format_name={explicit!r}) raised {type(err).__name__}: {err}"
        landed = [c for c in calls.log if c[1] == fn_name]
        if len(landed) != 1 or len(calls.log) != 1:
            return f"{fn_name}: expected exactly one plugin call, got {[(self.describe(o), m) for o, m in calls.log]}"
        if not Model.matches(want, landed[0][0]):
            return f"{fn_name} dispatched to {self.describe(landed[0][0])}, model resolves {fmt!r} to {self.describe_model(want)}"
        return None

    def refine(self, fe, model):
        for key, want in model.short.items():
            try:
                got = fe.get(key)
            except Exception as e:  # noqa: BLE001
                return f"short name {key!r} no longer resolves: {type(e).__name__}: {e}"
            if not Model.matches(want, got):
                self.vkey = "C19/resolution"
                return f"short name {key!r} resolves to {self.describe(got)}, model says {self.describe_model(want)}"
        for key, want in model.full.items():
            try:
                got = fe.get(key)
            except Exception as e:  # noqa: BLE001
                return f"plugin no longer reachable under its full name {key!r}: {type(e).__name__}: {e}"
            if not Model.matches(want, got):
                return f"full name {key!r} resolves to {self.describe(got)}, model says {self.describe_model(want)}"
        shorts = fe.known(False)
        if list(shorts) != sorted(model.short):
            return f"registered short names {shorts} != model {sorted(model.short)}"
        fulls = fe.known(True)
        missing = [k for k in list(model.short) + list(model.full) if k not in fulls]
        if missing:
            return f"registered names (full) lack {missing}"
        return None

    @staticmethod
    def describe(o):
        if o is None:
            return "None"
        if isinstance(o, type):
            return f"class {full_name(o)}"
        return f"{full_name(type(o))}(format={getattr(o, 'format', None)!r})#{id(o) % 9973}"

    @staticmethod
    def describe_model(v):
        if v[0] == "exact":
            return "exactly " + Run.describe(v[1])
        if v[0] == "anyfmt":
            return f"an instance of {full_name(v[1])}"
        return f"an instance of {full_name(v[1])} with format {v[2]!r}"


def execute(plan: dict) -> dict:
    return Run(plan).execute()


def shrink_candidates(plan: dict, violation: dict):
    import copy
    import json

    if plan["kind"] == "sweep":
        # the failing sequence is recorded in the message: turn it into a plain history
        msg = violation.get("message", "")
        if "| sequence=" in msg:
            seq = json.loads(msg.split("| sequence=")[1])
            yield {"engine": NAME, "kind": "history", "registry": plan["registry"], "ops": seq}
        return
    ops = plan["ops"]
    n = len(ops)
    size = n // 2
    while size >= 1:
        for start in range(0, n, size):
            p = copy.deepcopy(plan)
            del p["ops"][start : start + size]
            yield p
        size //= 2
    for i, op in enumerate(ops):
        if op["op"] == "REG" and len(op["keys"]) > 1:
            for j in range(len(op["keys"])):
                p = copy.deepcopy(plan)
                del p["ops"][i]["keys"][j]
                p["ops"][i].pop("ctor_raises_at", None)
                yield p
