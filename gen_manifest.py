#!/usr/bin/env python3
"""Regenerate MANIFEST.json (kept as a script so the text stays consistent)."""
import json, os, sys
HERE = os.path.dirname(os.path.abspath(__file__))
NA = {
 "C01": "pure function of (matrix, data): optimality of the linear solvers has no schedule, fault, clock or history; deciding it is input generation, not simulation (DESIGN §4 C01)",
 "C02": "penalty vector is a deterministic function of (scheme, x); only the history-dependent part is simulated, under C10 (DESIGN §4 C02)",
 "C03": "result-dataset identities are pure functions of the scheme; nothing to schedule or fault (DESIGN §4 C03)",
 "C04": "agreement with exp(Kt)j is a numerical identity of a pure function; needs an ODE oracle, not a simulator (DESIGN §4 C04)",
 "C05": "exactness of the Gaussian-IRF convolution is a pure numerical identity; only its prange structure is simulated, under C10 (DESIGN §4 C05)",
 "C06": "permutation equivariance is a metamorphic relation between two programs of a pure function (DESIGN §4 C06)",
 "C07": "basis-function definitions are pure functions of their arguments (DESIGN §4 C07)",
 "C08": "interval membership and its effects are a pure function of interval and axis (DESIGN §4 C08)",
 "C09": "CLP alignment is a deterministic function of axes, tolerance, method and dataset order (DESIGN §4 C09)",
 "C11": "transform round-trip, bounds and fixed parameters are deterministic functions of the parameter set; the fault-path facet is covered under C15 (DESIGN §4 C11)",
 "C13": "algebraic relations among statistics of one deterministic result (DESIGN §4 C13)",
 "C14": "simulate-then-fit agreement is a pure input/output relation (DESIGN §4 C14)",
 "C16": "round trip of parameter files is a pure function of the table written; the file system is a plain store here (DESIGN §4 C16)",
 "C17": "persistence round trip is a fixed recipe on a deterministic store, no fault/crash/interleaving in the statement (DESIGN §4 C17)",
 "C20": "validation soundness quantifies over model programs fed to a pure function (DESIGN §4 C20)",
}
CHECKS = {
 "C10": dict(engine="evalsim+prangesim", level="exploration", ref="4 C10",
   technique="deterministic simulation: seeded evaluation histories with fault injection against a stateless reference; seeded prange schedules over generator twins of the numba kernels with a write/read conflict oracle",
   text="Seeded search over evaluation histories (random walks, repeats, returns, faulted evaluations, thread-count switches, restarts, whole optimize() calls) on generated schemes, every penalty compared with itself at equal x and with a fresh stateless reference; plus seeded schedules of the prange loops of every numba kernel lifted into the simulator, with an exact per-execution conflict oracle. Sampled, not exhaustive.",
   note="Trusted: numpy/scipy/LAPACK, numba's compilation of the kernels (twins are checked against the compiled kernels numerically), asteval. numba's own thread scheduler is observed (thread-count switches), not controlled."),
 "C12": dict(engine="paramsim", level="exploration", ref="4 C12",
   technique="deterministic simulation: seeded operation histories on a live Parameters object checked step by step against a topological reference evaluator; exhaustive declaration orders for small graphs",
   text="Seeded construction/update/copy/history/reload histories over acyclic expression graphs of up to 6 parameters in permuted declaration order, each step compared with an independent dependency-order evaluator; all declaration orders of all small graphs enumerated in every run.",
   note="Trusted: asteval's arithmetic agrees with Python's for the function alphabet used; yaml/pandas loaders."),
 "C15": dict(engine="faultsim", level="fault_enumeration", ref="4 C15",
   technique="deterministic simulation with fault injection: exception / non-finite / region / BaseException faults at the k-th optimiser-driven model evaluation (every k in the thorough tier), at seam and source-line granularity, real scipy and scripted optimiser",
   text="For generated schemes x method x verbose x raise_exception, a fault is injected at chosen (thorough: every) evaluation k of the optimiser's schedule at a swarm-chosen site (objective entry, group, fill_item, megacomplex, residual solver, n-th source line) and the outcome is judged: outcome type, termination reason, provenance of parameters and datasets against a stateless reference, stdout identity, caller's scheme untouched, invalid schemes rejected before any evaluation, bit-identical recovery.",
   note="Faults are injected only into evaluations driven by the optimiser (least_squares on the stack); create_result's own re-evaluation is out of scope (DESIGN §4.15 scope decision). Trusted: scipy.optimize.least_squares, numpy."),
 "C18": dict(engine="fssim", level="fault_enumeration", ref="4 C18",
   technique="deterministic simulation with fault injection on a sandboxed directory tree: exhaustive save-function x format x target-state x flag x fault matrix, plus seeded Project histories with crashes/restarts against a reference file-system model",
   text="Phase A enumerates every save_* function x every registered format (plus unknown / unsupported / inferred) x target state x allow_overwrite x fault kind; phase B runs seeded histories of saves, Project.optimize with colliding result names, imports, generators, lookups, crashes and restarts against a dict-based reference file system and run-number model.",
   note="netCDF bytes are written by a C library: open/tear faults cannot reach *.nc files (plugin-level faults only). No fsync / power-loss model. Project.optimize uses a stubbed optimiser in most runs (stated in evidence)."),
 "C19": dict(engine="regsim", level="exploration", ref="4 C19",
   technique="deterministic simulation: seeded and short-exhaustive register/set/lookup/dispatch histories on sandboxed registries refined against a two-dict reference model",
   text="All operation sequences up to length 3 over a reduced alphabet plus seeded long histories over fake plugin classes in the megacomplex, data-io and project-io registries, each step checked (exception, warnings, return value) and the whole registry refined against the model after every step.",
   note="No clock, concurrency or I/O is involved; this is the reference-model end of the technique. The process-global registry is sandboxed with glotaran.testing.plugin_system."),
}
built = [c for c in CHECKS if all(os.path.exists(os.path.join(HERE, "sim", e + ".py")) for e in CHECKS[c]["engine"].split("+"))]
checks = []
na = [{"property_id": k, "reason": v} for k, v in NA.items()]
for cid, c in CHECKS.items():
    if cid not in built:
        na.append({"property_id": cid, "reason": "check not built yet in this session; applicable by design (DESIGN §%s)" % c["ref"]})
        continue
    checks.append({
        "property_id": cid,
        "quick_cmd": f"./check {cid} --tier quick",
        "thorough_cmd": f"./check {cid} --tier thorough",
        "evidence_file": f"/verif/evidence/{cid}.json",
        "replay_cmd_template": f"./check {cid} --replay {{path}}",
        "engine": c["engine"],
        "level_claimed": {"category": c["level"], "text": c["text"], "design_ref": f"DESIGN.md §{c['ref']}"},
        "level_note": c["note"],
        "technique": c["technique"],
    })
na.sort(key=lambda d: d["property_id"])
hooks_commits = []
hc = os.path.join(HERE, "hook_commits.txt")
if os.path.exists(hc):
    hooks_commits = [l.split()[0] for l in open(hc) if l.strip() and not l.startswith("#")]
doc = {
 "version": 1,
 "setup_cmd": "./setup.sh",
 "hooks": {
   "guard": "GLOTARAN_PYGLOTARAN_VERIF",
   "enable": "no build step: checks import glotaran from /repo's working tree (VERIF_REPO) with GLOTARAN_PYGLOTARAN_VERIF=1 in the environment; all seams are monkeypatches installed by /verif/sim, no source hook exists in /repo",
   "baseline_off_cmd": "cd /repo && env -u GLOTARAN_PYGLOTARAN_VERIF /venv/bin/python -m pytest -ra -q -p no:cacheprovider --timeout=900 --continue-on-collection-errors",
   "source_commits": hooks_commits,
   "add_only": True,
 },
 "engines": [
   {"name": "faultsim", "path": "sim/faultsim.py", "serves_properties": ["C15"], "kind_free_text": "fault injection into the optimiser's evaluation schedule"},
   {"name": "evalsim", "path": "sim/evalsim.py", "serves_properties": ["C10", "C12"], "kind_free_text": "evaluation-history simulation with scripted optimiser"},
   {"name": "prangesim", "path": "sim/prangesim.py", "serves_properties": ["C10"], "kind_free_text": "seeded scheduler over generator twins of numba prange kernels"},
   {"name": "paramsim", "path": "sim/paramsim.py", "serves_properties": ["C12"], "kind_free_text": "operation histories on Parameters vs topological reference"},
   {"name": "fssim", "path": "sim/fssim.py", "serves_properties": ["C18"], "kind_free_text": "file-system fault matrix and Project histories with crash/restart"},
   {"name": "regsim", "path": "sim/regsim.py", "serves_properties": ["C19"], "kind_free_text": "registry histories vs two-dict model"},
 ],
 "checks": checks,
 "not_applicable": na,
 "notes": "Technique family: deterministic simulation with fault injection. Exit codes of ./check: 0 held, 1 VIOLATION (with replay file), 2 harness error. Known findings: /verif/known_findings.json.",
}
doc["engines"] = [e for e in doc["engines"] if os.path.exists(os.path.join(HERE, e["path"]))]
json.dump(doc, open(os.path.join(HERE, "MANIFEST.json"), "w"), indent=1)
print("checks:", [c["property_id"] for c in checks])
